"""./bin/check <PROPERTY> --tier quick|thorough [--replay FILE]

Decides one property on /repo's current working tree:

  1. proof part    - pvc generates the obligations of every contract that serves the property from
                     the real source and discharges them (z3, then cvc5);
  2. analyses      - whole-class frame / cost analyses where the property has them (C15, C20);
  3. bounded part  - the same contracts checked at run time on the real functions over an
                     exhaustively enumerated bounded domain, plus the property's bounded stand-in
                     for what is outside the verifier's reach (labelled bounded, never "proved").

Exit codes: 0 held on everything explored (KNOWN-FINDING / UNDECIDED lines possible),
            1 at least one VIOLATION not listed in known_findings.json,
            3 the checker itself is broken (zero obligations, crash).
"""
from __future__ import annotations

import argparse
import hashlib
import importlib
import json
import multiprocessing as mp
import os
import sys
import time
import traceback

ROOT = os.path.dirname(os.path.dirname(os.path.abspath(__file__)))
sys.path.insert(0, ROOT)

from harness import findings as kf  # noqa: E402
from harness.native import check_native, default_domain  # noqa: E402

REPO = os.environ.get("NIMA_REPO", "/repo")
LOCKED: dict = {}


# ---------------------------------------------------------------------------------------------
# proof part (worker side)


def _prove_worker(args):
    if len(args) == 2:
        name, tier = args
        part, parts = 0, 1
    else:
        name, tier, part, parts = args
    t0 = time.time()
    try:
        from pvc.run import load_contracts
        from pvc.solve import discharge
        from pvc.stmt import verify_contract, verify_spec_lemmas

        reg = load_contracts()
        if name == "spec-lemmas":
            res = verify_spec_lemmas(reg)
            c = res.contract
        else:
            c = reg[name]
            res = verify_contract(c, reg)
        timeout = {"quick": 6000, "thorough": 60000}[tier]
        timeout = max(timeout, getattr(c, "timeout_ms", 0) if tier == "thorough" else 0)
        groups = {}
        order = []
        for ob_index, ob in enumerate(res.obligations):
            if ob_index % parts != part:
                continue
            r = discharge(ob, timeout_ms=timeout, cvc5_timeout_s=10 if tier == "quick" else 90)
            if r["status"] == "undecided" and not ob.must_fail and c.kind == "function" and name != "spec-lemmas":
                # quantified VC: look for a candidate counter-model with quantifiers expanded, build real
                # objects from it and replay natively; only a native failure turns it into a refutation
                try:
                    from pvc.solve import bounded_countermodel, has_quantifier

                    if has_quantifier(list(ob.assumptions) + [ob.goal]):
                        m, why = bounded_countermodel(ob, K=3, timeout_ms=15000)
                        if m is not None:
                            from harness.concretize import inputs_from_model
                            from harness.native import check_native

                            inputs, desc = inputs_from_model(c, m, ob.inputs)
                            out = check_native(c, inputs)
                            if out.pre_ok and not out.ok and out.error is None:
                                r = dict(status="refuted", backend="z3-bounded+native", seconds=r["seconds"],
                                         model={"objects": {str(k): v for k, v in desc.items()},
                                                "scalars": {k: v for k, v in inputs.items() if isinstance(v, (str, int, bool))},
                                                "native": out.describe()},
                                         reason="candidate model (quantifiers expanded, lengths <= 3) reproduced natively")
                            else:
                                r["reason"] = (r.get("reason", "") + f"; bounded candidate model did not reproduce natively ({out.describe()[:80]})")[:300]
                        else:
                            r["reason"] = (r.get("reason", "") + f"; bounded counter-model search: {why}")[:300]
                except Exception as e:
                    r["reason"] = (r.get("reason", "") + f"; counter-model search failed: {type(e).__name__}: {e}")[:300]
            key = (ob.kind, ob.label, ob.must_fail)
            if key not in groups:
                groups[key] = dict(kind=ob.kind, label=ob.label, must_fail=ob.must_fail, aux=ob.aux, line=ob.line,
                                   paths=0, statuses=[], backends={}, seconds=0.0, models=[], reasons=[])
                order.append(key)
            g = groups[key]
            g["paths"] += 1
            g["statuses"].append(r["status"])
            g["backends"][r["backend"]] = g["backends"].get(r["backend"], 0) + 1
            g["seconds"] += r["seconds"]
            if r.get("model") is not None and r["status"] in ("refuted", "undecided"):
                g["models"].append(r["model"])
            if r.get("reason"):
                g["reasons"].append(r["reason"][:200])
        obs = []
        for key in order:
            g = groups[key]
            sts = g.pop("statuses")
            if g["must_fail"]:
                # canary / cover: must be satisfiable (refuted) on at least one path
                if any(s == "refuted" for s in sts) or any(r.startswith("sat-with") for r in g["reasons"]):
                    g["status"] = "ok-refuted"
                else:
                    g["status"] = "vacuous"
            elif any(s == "refuted" for s in sts):
                g["status"] = "refuted"
            elif any(s == "undecided" for s in sts):
                g["status"] = "undecided"
            else:
                g["status"] = "discharged"
            g["name"] = f"{c.name}/{g['kind']}[{g['label']}]"
            g["models"] = g["models"][:3]
            g["reasons"] = g["reasons"][:2]
            obs.append(g)
        return dict(name=name, part=part, parts=parts, target=c.target, status=res.status, error=res.error, paths=res.paths,
                    src_hash=res.src_hash, line=res.line, seconds=time.time() - t0, exits=res.exits,
                    assumptions=sorted(res.assumptions), inlined=sorted(res.inlined), obligations=obs,
                    props=list(c.props))
    except Exception as e:  # engine crash: reported as such, never as a verdict
        return dict(name=name, target="?", status="crash", error=f"{type(e).__name__}: {e}\n{traceback.format_exc()[-1500:]}",
                    paths=0, src_hash="", line=0, seconds=time.time() - t0, exits={}, assumptions=[], inlined=[],
                    obligations=[], props=[])


def prove(names, tier, jobs=None):
    """Verify the named contracts; the obligations of each contract are split over several worker
    processes (VC generation is cheap and deterministic, so every worker regenerates and takes its slice)."""
    if not names:
        return []
    parts = max(1, min(8, 16 // max(1, len(names))))
    tasks = [(n, tier, k, parts) for n in names for k in range(parts)]
    ctx = mp.get_context("fork")
    with ctx.Pool(min(16, len(tasks))) as pool:
        raw = pool.map(_prove_worker, tasks, chunksize=1)
    merged = {}
    for r in raw:
        m = merged.get(r["name"])
        if m is None:
            merged[r["name"]] = r
            continue
        m["seconds"] = max(m["seconds"], r["seconds"])
        if r["status"] != "ok" and m["status"] == "ok":
            m["status"], m["error"] = r["status"], r["error"]
        m["assumptions"] = sorted(set(m["assumptions"]) | set(r["assumptions"]))
        by = {(o["kind"], o["label"], o["must_fail"]): o for o in m["obligations"]}
        for o in r["obligations"]:
            key = (o["kind"], o["label"], o["must_fail"])
            if key not in by:
                m["obligations"].append(o)
                by[key] = o
                continue
            a = by[key]
            a["paths"] += o["paths"]
            a["seconds"] += o["seconds"]
            for b, k in o["backends"].items():
                a["backends"][b] = a["backends"].get(b, 0) + k
            a["models"] = (a["models"] + o["models"])[:3]
            a["reasons"] = (a["reasons"] + o["reasons"])[:2]
            order = {"vacuous": 0, "ok-refuted": 3, "discharged": 0, "undecided": 1, "refuted": 2}
            if a["must_fail"]:
                if o["status"] == "ok-refuted":
                    a["status"] = "ok-refuted"
            elif order[o["status"]] > order[a["status"]]:
                a["status"] = o["status"]
    return [merged[n] for n in names if n in merged]


# ---------------------------------------------------------------------------------------------
# native / bounded part for contracts


def _native_worker(args):
    name, tier, budget_s = args
    from pvc.run import load_contracts

    reg = load_contracts()
    c = reg[name]
    t0 = time.time()
    n = 0
    checked = 0
    fails = []
    samples = []
    exhausted = True
    try:
        dom = c.domain(tier) if callable(c.domain) else default_domain(c, tier)
        for inputs in dom:
            n += 1
            shown = _jsonable(inputs)
            out = check_native(c, inputs)
            if not out.pre_ok:
                continue
            checked += 1
            if len(samples) < 3 and checked % 97 == 1:
                samples.append({"inputs": shown, "outcome": out.kind})
            if out.error is not None:
                return dict(name=name, skipped=None, harness_error=f"{out.error} on {inputs!r}", generated=n, checked=checked,
                            fails=[], samples=samples, exhaustive=False, seconds=time.time() - t0)
            if not out.ok:
                fails.append({"inputs": shown, "observed": out.describe(), "failed": list(out.failed)})
                if len(fails) >= 5:
                    exhausted = False
                    break
            if time.time() - t0 > budget_s:
                exhausted = False
                break
    except NotImplementedError as e:
        return dict(name=name, skipped=f"no bounded domain for parameter type {e}", generated=0, checked=0, fails=[],
                    samples=[], exhaustive=False, seconds=0.0)
    except Exception as e:
        return dict(name=name, skipped=f"native harness error {type(e).__name__}: {e}", generated=n, checked=checked,
                    fails=fails, samples=samples, exhaustive=False, seconds=time.time() - t0)
    return dict(name=name, skipped=None, generated=n, checked=checked, fails=fails, samples=samples,
                exhaustive=exhausted, seconds=time.time() - t0)


def _jsonable(x):
    if isinstance(x, dict):
        return {k: _jsonable(v) for k, v in x.items()}
    if isinstance(x, (list, tuple)):
        return [_jsonable(v) for v in x]
    if isinstance(x, bytes):
        return {"bytes": x.decode("latin-1")}
    if isinstance(x, (str, int, bool, float)) or x is None:
        return x
    return repr(x)


def native_bounded(names, tier, budget_s):
    if not names:
        return []
    ctx = mp.get_context("fork")
    with ctx.Pool(min(16, len(names))) as pool:
        return pool.map(_native_worker, [(n, tier, budget_s) for n in names], chunksize=1)


# ---------------------------------------------------------------------------------------------


def write_replay(prop, payload):
    d = os.path.join(ROOT, "replays")
    os.makedirs(d, exist_ok=True)
    h = hashlib.sha256(json.dumps(payload, sort_keys=True, default=str).encode()).hexdigest()[:12]
    p = os.path.join(d, f"{prop}-{h}.json")
    with open(p, "w") as fh:
        json.dump(payload, fh, indent=1, default=str)
    return p


def run_property(prop_id, tier, seed):
    from harness import lock as _lock
    from harness.props import PROPS
    from pvc.run import load_contracts

    global LOCKED
    LOCKED = _lock.load()

    t0 = time.time()
    P = PROPS[prop_id]
    reg = load_contracts()
    names = [n for n, c in reg.items() if prop_id in c.props and not c.trusted]
    trusted = [n for n, c in reg.items() if prop_id in c.props and c.trusted]
    lines = []
    violations = []  # dict(kind, what, replay_payload, suffix)
    undecided = []
    crashed = []

    # ---- 1. proof
    proof_names = list(names)
    from pvc.spec import LEMMAS

    if LEMMAS and names:
        proof_names.append("spec-lemmas")
    results = prove(proof_names, tier)
    n_obl = n_dis = 0
    solver_s = 0.0
    backends = {}
    functions = []
    vacuity = []
    assumptions = set()
    for r in results:
        functions.append(dict(function=r["target"], contract=r["name"], status=r["status"], paths=r["paths"],
                              source_sha=r["src_hash"], obligations=len([o for o in r["obligations"] if not o["must_fail"]]),
                              discharged=len([o for o in r["obligations"] if o["status"] == "discharged"]),
                              seconds=round(r["seconds"], 2), exits=r["exits"], inlined=r["inlined"], error=r["error"]))
        assumptions.update(r["assumptions"])
        if r["status"] == "crash":
            crashed.append(r)
            continue
        if r["status"] in ("out-of-subset", "missing"):
            undecided.append(dict(obligation=f"{r['name']}/*", reason=f"{r['status']}: {r['error']}", contract=r["name"]))
        real = [o for o in r["obligations"] if not o["must_fail"]]
        if r["status"] == "ok" and not real and r["name"] != "spec-lemmas":
            crashed.append(dict(r, error="zero obligations generated (vacuous run)"))
        lk = LOCKED.get(r["name"])
        if lk and r["status"] == "ok" and lk["src_hash"] == r["src_hash"] and lk["obligations"] != len(real) and not os.environ.get("NIMA_REPO"):
            crashed.append(dict(r, error=f"obligation count changed ({lk['obligations']} -> {len(real)}) although the function source is unchanged"))
        for o in r["obligations"]:
            solver_s += o["seconds"]
            for b, k in o["backends"].items():
                backends[b] = backends.get(b, 0) + k
            if o["must_fail"]:
                vacuity.append(dict(obligation=o["name"], status=o["status"]))
                if o["status"] == "vacuous":
                    if o["kind"] == "canary" and r["status"] == "ok":
                        crashed.append(dict(r, error=f"canary not refuted: {o['name']} (pipeline vacuous)"))
                    # an unreachable exit (cover) is reported but is not an error by itself
                continue
            n_obl += 1
            if o["status"] == "discharged":
                n_dis += 1
            elif o["status"] == "refuted":
                violations.append(dict(source="proof", contract=r["name"], obligation=o["name"], models=o["models"],
                                       line=o["line"], target=r["target"], reasons=o["reasons"]))
            else:
                undecided.append(dict(obligation=o["name"], reason="; ".join(o["reasons"]) or "unknown", contract=r["name"]))

    # ---- 2. analyses
    analysis_results = []
    for an in P.get("analyses", []):
        mod = importlib.import_module(an)
        ar = mod.run(tier)
        analysis_results.append(ar)
        n_obl += ar["obligations"]
        n_dis += ar["discharged"]
        functions.extend(ar.get("functions", []))
        assumptions.update(ar.get("assumptions", []))
        for v in ar["violations"]:
            violations.append(dict(source="analysis", **v))

    # ---- 3. bounded: contracts natively + property stand-in
    budget = {"quick": 20, "thorough": 240}[tier]
    nat = native_bounded([n for n in names if reg[n].kind == "function" and reg[n].domain is not False], tier, budget)
    evaluations = 0
    bounded_samples = []
    bounded_notes = []
    nat_by_name = {}
    for r in nat:
        nat_by_name[r["name"]] = r
        evaluations += r["checked"]
        bounded_samples.extend([dict(contract=r["name"], **s) for s in r["samples"][:2]])
        if r["skipped"]:
            bounded_notes.append(f"{r['name']}: {r['skipped']}")
        if r.get("harness_error"):
            crashed.append(dict(name=r["name"], error="native contract evaluation failed: " + r["harness_error"]))
        for f in r["fails"]:
            violations.append(dict(source="native-contract", contract=r["name"], target=reg[r["name"]].target,
                                   inputs=f["inputs"], observed=f["observed"], failed=f.get("failed", [])))
    stand_in = None
    if P.get("bounded"):
        mod = importlib.import_module(P["bounded"])
        stand_in = mod.run(tier, seed)
        evaluations += stand_in["evaluations"]
        bounded_samples.extend(stand_in["samples"][:4])
        for v in stand_in["violations"]:
            violations.append(dict(source="bounded", **v))

    # ---- replay / reporting
    findings = kf.load()
    reported = 0
    known = 0
    out_violations = []
    for v in violations:
        if v["source"] == "proof":
            # try to turn the refuted obligation into a failing input of the real function
            c = reg.get(v["contract"])
            failing = None
            if c is not None and c.kind == "function":
                for m in v["models"]:
                    if isinstance(m, dict) and "native" in m:
                        failing = dict(inputs=m, observed=m["native"], origin="bounded counter-model concretised into real objects")
                        break
                    inputs = _inputs_from_model(c, m)
                    if inputs is None:
                        continue
                    try:
                        out = check_native(c, inputs)
                    except Exception:
                        continue
                    if out.pre_ok and not out.ok:
                        failing = dict(inputs=_jsonable(inputs), observed=out.describe(), origin="solver model")
                        break
                if failing is None:
                    nb = nat_by_name.get(v["contract"])
                    if nb and nb["fails"]:
                        failing = dict(nb["fails"][0], origin="bounded search of the contract's domain")
            v["failing_input"] = failing
            what = f"obligation {v['obligation']} refuted"
        elif v["source"] == "native-contract":
            # already reported through the proof obligation if one was refuted for the same contract
            if any(x["source"] == "proof" and x["contract"] == v["contract"] for x in violations):
                continue
            what = f"contract {v['contract']} fails natively on {json.dumps(v['inputs'])[:200]}"
            v["failing_input"] = dict(inputs=v["inputs"], observed=v["observed"], origin="bounded native check")
        elif v["source"] == "analysis":
            what = v["what"]
        else:
            what = v["what"]
        match = kf.match(findings, prop_id, v)
        if match is not None:
            known += 1
            lines.append(f"KNOWN-FINDING: property={prop_id} {match['what']}")
            continue
        payload = dict(property=prop_id, tier=tier, violation=v, what=what,
                       how_to_replay=f"./bin/check {prop_id} --replay <this file>")
        path = write_replay(prop_id, payload)
        suffix = ""
        if v.get("failing_input") is None and v["source"] in ("proof", "analysis") and not v.get("has_input"):
            suffix = " no-failing-input-found"
        lines.append(f"VIOLATION property={prop_id} replay={path}{suffix}")
        lines.append(f"  {what}")
        if v.get("failing_input"):
            lines.append(f"  failing input ({v['failing_input'].get('origin', '')}): {json.dumps(v['failing_input'].get('inputs'))[:300]}")
            lines.append(f"  observed: {str(v['failing_input'].get('observed', ''))[:300]}")
        reported += 1
        out_violations.append(v)
    # de-duplicate KNOWN-FINDING lines
    seen = set()
    dedup = []
    for ln in lines:
        if ln.startswith("KNOWN-FINDING") and ln in seen:
            continue
        seen.add(ln)
        dedup.append(ln)
    lines = dedup
    for u in undecided:
        lines.append(f"UNDECIDED obligation={u['obligation']} reason={u['reason'][:160]} fallback=bounded-"
                     + ("pass" if not any(x.get("contract") == u.get("contract") for x in out_violations) else "fail"))

    # ---- evidence
    wall = time.time() - t0
    level = P["level"]
    if level == "proof" and (n_dis < n_obl or n_obl == 0):
        level = "exploration"  # not everything was discharged on this run: do not call it a proof
    distinct = sum(r["checked"] for r in nat) + (stand_in["distinct_nontrivial"] if stand_in else 0)
    rule_parts = []
    if nat:
        rule_parts.append("contract domains: every argument tuple from the per-parameter bounded domains that satisfies the "
                          "precondition (each tuple is distinct by construction); the real function is called and its contract "
                          "evaluated natively")
    if stand_in:
        rule_parts.append(stand_in["rule"])
    ev = dict(
        property_id=prop_id, tier=tier, seed=seed, level=level,
        coverage=dict(
            obligations=n_obl, discharged=n_dis,
            checker_cmd=f"./bin/check {prop_id} --tier {tier}  (pvc: VCs generated from {REPO} source at run time; z3 {_z3v()} then /usr/bin/cvc5 --strings-exp)",
            trusted_base=sorted(set(P.get("trusted_base", [])) | {f"contract assumed, not verified: {t}" for t in trusted}),
            functions_under_contract=functions,
            backends=backends, solver_seconds=round(solver_s, 2),
            undecided=undecided[:50], vacuity_guards=vacuity[:200],
            analyses=[{k: v for k, v in a.items() if k not in ("violations", "functions")} for a in analysis_results],
            evaluations=max(evaluations, 0), distinct_nontrivial=distinct,
            rule=" | ".join(rule_parts) or "no bounded part",
            samples=bounded_samples[:8] or [dict(obligation=f["contract"]) for f in functions[:3]],
            exhaustive=bool(nat) and all(r["exhaustive"] for r in nat) and (stand_in is None or stand_in.get("exhaustive", False)),
            bounded=dict(label="bounded (never counted as proved)",
                         contracts=[{k: r[k] for k in ("name", "generated", "checked", "exhaustive", "skipped")} for r in nat],
                         stand_in={k: v for k, v in (stand_in or {}).items() if k not in ("violations", "samples")},
                         notes=bounded_notes),
            known_findings_matched=known,
            extraction_drops="decorators, type annotations (sort hints only), docstrings, comments",
        ),
        assumptions=sorted(assumptions | set(P.get("assumptions", []))),
        wall_s=round(wall, 2), violations=reported,
    )
    evdir = os.environ.get("VERIF_EVIDENCE_DIR") or os.path.join(ROOT, "evidence")  # seeded-change runs write elsewhere
    os.makedirs(evdir, exist_ok=True)
    with open(os.path.join(evdir, f"{prop_id}.json"), "w") as fh:
        json.dump(ev, fh, indent=1, default=str)

    for ln in lines:
        print(ln)
    print(f"[{prop_id}] tier={tier} level={level} obligations={n_obl} discharged={n_dis} undecided={len(undecided)} "
          f"bounded_evaluations={evaluations} violations={reported} known={known} wall={wall:.1f}s")
    if crashed:
        for r in crashed:
            print(f"CHECKER-ERROR contract={r['name']}: {r['error']}", file=sys.stderr)
        return 3
    return 1 if reported else 0


def _z3v():
    import z3

    return z3.get_version_string()


def _inputs_from_model(c, model):
    inputs = {}
    for name, t in c.params.items():
        if name in model:
            v = model[name]
            if t.name == "Bytes" and isinstance(v, str):
                v = v.encode("latin-1")
            inputs[name] = v
        elif t.name in ("Opt", "OneOf") or t.name == "None":
            inputs[name] = None
        else:
            return None
    return inputs


def replay(prop_id, path):
    from pvc.run import load_contracts

    payload = json.load(open(path))
    v = payload["violation"]
    reg = load_contracts()
    print(f"replay of {path}: {payload['what']}")
    if v.get("failing_input") and v.get("contract") in reg:
        c = reg[v["contract"]]
        inputs = v["failing_input"]["inputs"]
        inputs = {k: (x["bytes"].encode("latin-1") if isinstance(x, dict) and "bytes" in x else x) for k, x in inputs.items()}
        if callable(c.domain):
            # domains of real objects (parsed documents, possibly edited first) are recorded by their text: take the recorded
            # input from the domain again (same generator, deterministic) instead of handing the text to the function
            recorded = v["failing_input"]["inputs"]
            found = None
            for tier in ("quick", "thorough"):
                for cand in c.domain(tier):
                    if _jsonable(cand) == recorded:
                        found = cand
                        break
                if found is not None:
                    break
            if found is None:
                print("the recorded input is not in the contract's domain any more: re-running the native domain instead")
                rc = run_property(prop_id, "quick", 0)
                return rc
            inputs = found
        out = check_native(c, inputs)
        print("inputs:", inputs)
        print("native outcome:", out.describe())
        if out.pre_ok and not out.ok:
            print(f"VIOLATION property={prop_id} replay={path}")
            return 1
        print("does not reproduce on the current tree")
        return 0
    if v["source"] == "bounded":
        from harness.props import PROPS

        mod = importlib.import_module(PROPS[prop_id]["bounded"])
        if hasattr(mod, "replay"):
            return mod.replay(v)
    print(json.dumps(v, indent=1, default=str)[:3000])
    # obligations without an input: re-run the property and see whether the same obligation fails
    rc = run_property(prop_id, "quick", 0)
    return rc


def main():
    ap = argparse.ArgumentParser()
    ap.add_argument("prop")
    ap.add_argument("--tier", default=os.environ.get("VERIF_TIER", "quick"), choices=["quick", "thorough"])
    ap.add_argument("--replay")
    a = ap.parse_args()
    seed = int(os.environ.get("VERIF_SEED", "0") or 0)
    if a.replay:
        sys.exit(replay(a.prop, a.replay))
    try:
        rc = run_property(a.prop, a.tier, seed)
    except Exception:
        traceback.print_exc()
        rc = 3
    sys.exit(rc)


if __name__ == "__main__":
    main()
