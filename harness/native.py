"""Native (CPython) evaluation of the same contracts on the real functions: used to replay solver
counterexamples, to search the bounded domain for a failing input, and as the run-time-checked
bounded stand-in / encoder cross-check."""
from __future__ import annotations

import dataclasses
import importlib
import itertools

from pvc import types as ty
from pvc.contract import Contract
from pvc.spec import SPECS, implies


import ast as _ast

_COMPILED: dict = {}


class _Lazy(_ast.NodeTransformer):
    """implies(a, b) -> (not a) or b   (so that b is only evaluated when a holds, as in pvc)."""

    def visit_Call(self, node):
        self.generic_visit(node)
        if isinstance(node.func, _ast.Name) and node.func.id == "implies" and len(node.args) == 2:
            return _ast.BoolOp(op=_ast.Or(), values=[_ast.UnaryOp(op=_ast.Not(), operand=node.args[0]), node.args[1]])
        return node


def ceval(clause: str, env: dict):
    code = _COMPILED.get(clause)
    if code is None:
        tree = _ast.parse(clause, mode="eval")
        tree = _ast.fix_missing_locations(_Lazy().visit(tree))
        code = compile(tree, "<contract>", "eval")
        _COMPILED[clause] = code
    return eval(code, env)


def resolve_target(target: str):
    rel, qual = target.split("::")
    modname = rel[:-3].replace("/", ".")
    if modname.endswith(".__init__"):
        modname = modname[: -len(".__init__")]
    mod = importlib.import_module(modname)
    obj = mod
    parts = qual.split(".")
    setter = False
    if parts[-1] == "setter":
        setter = True
        parts = parts[:-1]
    for i, p in enumerate(parts):
        if isinstance(obj, type) and i == len(parts) - 1:
            raw = obj.__dict__.get(p, None)
            if isinstance(raw, property):
                return raw.fset if setter else raw.fget
            if isinstance(raw, (staticmethod, classmethod)):
                return raw.__func__ if isinstance(raw, staticmethod) else getattr(obj, p)
        obj = getattr(obj, p)
    return obj


def normalize(v):
    """Make results comparable with native spec values (records -> tuples)."""
    if dataclasses.is_dataclass(v) and not isinstance(v, type) and ty.has_record(type(v).__name__):
        _, fields = ty.record(type(v).__name__)
        return tuple(normalize(getattr(v, f)) for f, _ in fields)
    if isinstance(v, list):
        return [normalize(x) for x in v]
    if isinstance(v, tuple):
        return tuple(normalize(x) for x in v)
    return v


def spec_env():
    env = {"implies": implies, "iff": lambda a, b: bool(a) == bool(b), "old": lambda x: x}
    for name, sp in SPECS.items():
        env[name] = sp.py
        for k, o in sp.globals.items():
            if k.isupper() and isinstance(o, (bool, int, str)):
                env.setdefault(k, o)
    return env


class NativeOutcome:
    def __init__(self):
        self.kind = None  # return | raise
        self.exc = None
        self.exc_repr = None
        self.result = None
        self.failed = []  # clauses that evaluate to False
        self.pre_ok = True
        self.error = None

    @property
    def ok(self):
        return self.pre_ok and not self.failed and self.error is None

    def describe(self):
        if not self.pre_ok:
            return "precondition not met"
        if self.error:
            return f"native evaluation error: {self.error}"
        what = f"returned {self.result!r}" if self.kind == "return" else f"raised {self.exc_repr}"
        return f"{what}; failed clauses: {self.failed}"


def _forall_range(inputs):
    m = 2
    for v in inputs.values():
        if isinstance(v, (str, list)):
            m = max(m, len(v) + 2)
    return range(-1, m)


def check_native(c: Contract, inputs: dict, fn=None) -> NativeOutcome:
    out = NativeOutcome()
    env = spec_env()
    env.update(inputs)
    try:
        for cl in c.requires:
            if not ceval(cl, env):
                out.pre_ok = False
                return out
        for var, cl in c.requires_forall:
            for k in _forall_range(inputs):
                e2 = dict(env)
                e2[var] = k
                if not ceval(cl, e2):
                    out.pre_ok = False
                    return out
    except Exception as e:  # spec not evaluable on this input
        out.pre_ok = False
        out.error = None
        return out
    fn = fn or resolve_target(c.target)
    import inspect

    sig = inspect.signature(fn)
    args, kwargs = [], {}
    for name, p in sig.parameters.items():
        if name not in inputs:
            continue
        if p.kind == p.KEYWORD_ONLY:
            kwargs[name] = inputs[name]
        else:
            args.append(inputs[name])
    try:
        res = fn(*args, **kwargs)
        out.kind = "return"
        out.result = normalize(res)
    except Exception as e:
        out.kind = "raise"
        out.exc = e
        out.exc_repr = f"{type(e).__name__}({e})"
    try:
        if out.kind == "return":
            env["result"] = out.result
            for cl in c.ensures:
                if not ceval(cl, env):
                    out.failed.append(cl)
        else:
            handled = None
            for name in c.exsures:
                if any(k.__name__ == name for k in type(out.exc).__mro__):
                    handled = name
                    break
            if handled is None:
                out.failed.append(f"no-unexpected-raise: {out.exc_repr}")
            else:
                for cl in c.exsures[handled]:
                    if not ceval(cl, env):
                        out.failed.append(f"post-exc({handled}): {cl}")
    except Exception as e:
        out.error = f"{type(e).__name__}: {e}"
    return out


# ---------------------------------------------------------------------------------------------
# bounded domains

DEFAULT_ALPHABET = ["a", '"', "\\", ".", "$", "{", "}", "\n", "\r", "\t", " ", "n", "@", "'", "0", "é", "-"]


def strings(alphabet, max_len):
    for n in range(max_len + 1):
        for tup in itertools.product(alphabet, repeat=n):
            yield "".join(tup)


def default_domain(c: Contract, tier: str):
    """Product of small per-parameter domains derived from the declared parameter types."""
    spec = getattr(c, "domain", None)
    alphabet = (spec or {}).get("alphabet", DEFAULT_ALPHABET)
    max_len = (spec or {}).get("max_len", {"quick": 3, "thorough": 4}[tier])
    if tier == "thorough":
        max_len = (spec or {}).get("max_len_thorough", max_len)
    ints = (spec or {}).get("ints", [-1, 0, 1, 2, 3, 5])

    def dom(t):
        n = t.name
        if n in ("Str", "Char"):
            return list(strings(alphabet, max_len if n == "Str" else 1))
        if n == "Bytes":
            return [s.encode("utf-8") for s in strings(alphabet, max_len)]
        if n == "Bool":
            return [False, True]
        if n == "Int":
            return ints
        if n == "None":
            return [None]
        if n == "Opt":
            return [None] + dom(t.args[0])
        if n == "OneOf":
            out = []
            for a in t.args:
                out.extend(dom(a))
            return out
        raise NotImplementedError(n)

    names = list(c.params)
    doms = [dom(c.params[n]) for n in names]
    for tup in itertools.product(*doms):
        yield dict(zip(names, tup))
