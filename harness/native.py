"""Native (CPython) evaluation of the same contracts on the real functions: used to replay solver
counterexamples, to search the bounded domain for a failing input, and as the run-time-checked
bounded stand-in / encoder cross-check."""
from __future__ import annotations

import dataclasses
import importlib
import itertools

from pvc import types as ty
from pvc.contract import Contract
from pvc.spec import SPECS, implies


import ast as _ast

_COMPILED: dict = {}


class _Lazy(_ast.NodeTransformer):
    """implies(a, b) -> (not a) or b   (so that b is only evaluated when a holds, as in pvc)."""

    def visit_Call(self, node):
        self.generic_visit(node)
        if isinstance(node.func, _ast.Name) and node.func.id == "implies" and len(node.args) == 2:
            return _ast.BoolOp(op=_ast.Or(), values=[_ast.UnaryOp(op=_ast.Not(), operand=node.args[0]), node.args[1]])
        return node


def ceval(clause: str, env: dict):
    code = _COMPILED.get(clause)
    if code is None:
        tree = _ast.parse(clause, mode="eval")
        tree = _ast.fix_missing_locations(_Lazy().visit(tree))
        code = compile(tree, "<contract>", "eval")
        _COMPILED[clause] = code
    return eval(code, env)


# ---- old(): maximal sub-expressions without bound variables are evaluated in the pre-state -------------


def _names(node):
    return {n.id for n in _ast.walk(node) if isinstance(n, _ast.Name)}


class _OldHoister(_ast.NodeTransformer):
    def __init__(self):
        self.bound = []
        self.pre = []  # (name, ast expr)

    def _visit_comp(self, node):
        added = []
        for g in node.generators:
            g.iter = self.visit(g.iter)
            names = _names(g.target)
            self.bound.append(names)
            added.append(names)
            g.ifs = [self.visit(i) for i in g.ifs]
        if hasattr(node, "elt"):
            node.elt = self.visit(node.elt)
        for _ in added:
            self.bound.pop()
        return node

    visit_GeneratorExp = _visit_comp
    visit_ListComp = _visit_comp

    def visit_Call(self, node):
        if isinstance(node.func, _ast.Name) and node.func.id == "old" and len(node.args) == 1:
            return self.hoist(node.args[0])
        return self.generic_visit(node)

    def is_free(self, node):
        b = set().union(*self.bound) if self.bound else set()
        return not (_names(node) & b)

    def hoist(self, node):
        if self.is_free(node) and not isinstance(node, _ast.Constant):
            name = f"_old_{len(self.pre)}"
            self.pre.append((name, node))
            return _ast.Name(id=name, ctx=_ast.Load())
        for field, value in _ast.iter_fields(node):
            if isinstance(value, _ast.expr):
                setattr(node, field, self.hoist(value))
            elif isinstance(value, list):
                setattr(node, field, [self.hoist(v) if isinstance(v, _ast.expr) else v for v in value])
        return node


_PREPARED: dict = {}


def prepare(clause: str):
    """-> ([(name, code)] evaluated before the call, code evaluated after it)"""
    if clause in _PREPARED:
        return _PREPARED[clause]
    tree = _ast.parse(clause, mode="eval")
    tree = _Lazy().visit(tree)
    h = _OldHoister()
    tree = h.visit(tree)
    _ast.fix_missing_locations(tree)
    pre = []
    for name, node in h.pre:
        e = _ast.Expression(body=_ast.Call(func=_ast.Name(id="_snap", ctx=_ast.Load()), args=[node], keywords=[]))
        _ast.fix_missing_locations(e)
        pre.append((name, compile(e, "<contract-old>", "eval")))
    _PREPARED[clause] = (pre, compile(tree, "<contract>", "eval"))
    return _PREPARED[clause]


class _Undefined:
    """Pre-state value that could not be evaluated (e.g. `.nested` of a binding that does not exist)."""

    def __init__(self, exc):
        object.__setattr__(self, "_exc", exc)

    def _fail(self, *a, **k):
        raise RuntimeError(f"old(...) undefined in the pre-state: {self._exc!r}")

    __getattr__ = __bool__ = __eq__ = __ne__ = __lt__ = __le__ = __gt__ = __ge__ = __len__ = __getitem__ = __iter__ = __hash__ = _fail


def _snap(v):
    if isinstance(v, list):
        return list(v)  # shallow: element identities are what `is` clauses talk about
    return v


def deep_snapshot(obj, seen=None, depth=0):
    """Structural snapshot incl. list identities (for heap_unchanged())."""
    import dataclasses

    if seen is None:
        seen = {}
    if isinstance(obj, (str, int, float, bool, bytes)) or obj is None:
        return obj
    if id(obj) in seen or depth > 40:
        return ("ref", id(obj))
    seen[id(obj)] = True
    if isinstance(obj, list):
        return ("list", id(obj), getattr(obj, "owner", None) is not None and id(getattr(obj, "owner")),
                [deep_snapshot(x, seen, depth + 1) for x in obj])
    if isinstance(obj, (tuple, set, frozenset)):
        return ("tuple", [deep_snapshot(x, seen, depth + 1) for x in obj])
    if isinstance(obj, dict):
        return ("dict", id(obj), [(k, deep_snapshot(v, seen, depth + 1)) for k, v in obj.items()])
    if dataclasses.is_dataclass(obj):
        return (type(obj).__name__, id(obj), [(f.name, deep_snapshot(getattr(obj, f.name), seen, depth + 1))
                                              for f in dataclasses.fields(obj)])
    if hasattr(obj, "expressions") and hasattr(obj, "trailing"):
        return ("Source", id(obj), deep_snapshot(obj.expressions, seen, depth + 1), deep_snapshot(obj.trailing, seen, depth + 1))
    return ("obj", id(obj))


class _AllocMark:
    """Native reading of `alloc_at_entry()`: `x < mark` = x existed at entry (reachable from the inputs then, or None);
    `x >= mark` = x was created by the call.  Comparisons reach this class through the reflected operators."""

    def __init__(self, seen):
        self.seen = seen
        self.keep = []

    def __gt__(self, other):  # other < mark
        return other is None or id(other) in self.seen

    def __le__(self, other):  # other >= mark
        return not self.__gt__(other)


def snapshots_agree(a, b, relax):
    """deep_snapshot equality, relaxed by field names that may differ and by "lists-grow" (append-only lists)."""
    if not relax:
        return a == b
    if isinstance(a, tuple) and isinstance(b, tuple) and a and b and a[0] == b[0]:
        if a[0] == "list":
            if a[1:3] != b[1:3]:
                return False
            xs, ys = a[3], b[3]
            if len(ys) < len(xs) or ("lists-grow" not in relax and len(xs) != len(ys)):
                return False
            return all(snapshots_agree(x, y, relax) for x, y in zip(xs, ys))
        if len(a) == 3 and isinstance(a[2], list) and a[2] and isinstance(a[2][0], tuple) and len(a[2][0]) == 2:
            if a[1] != b[1] or len(a[2]) != len(b[2]):
                return False
            return all(fa == fb and (fa in relax or snapshots_agree(va, vb, relax)) for (fa, va), (fb, vb) in zip(a[2], b[2]))
    return a == b


def resolve_target(target: str):
    rel, qual = target.split("::")
    modname = rel[:-3].replace("/", ".")
    if modname.endswith(".__init__"):
        modname = modname[: -len(".__init__")]
    mod = importlib.import_module(modname)
    obj = mod
    parts = qual.split(".")
    setter = False
    if parts[-1] == "setter":
        setter = True
        parts = parts[:-1]
    for i, p in enumerate(parts):
        if isinstance(obj, type) and i == len(parts) - 1:
            raw = obj.__dict__.get(p, None)
            if isinstance(raw, property):
                return raw.fset if setter else raw.fget
            if isinstance(raw, (staticmethod, classmethod)):
                return raw.__func__ if isinstance(raw, staticmethod) else getattr(obj, p)
        obj = getattr(obj, p)
    return obj


def normalize(v):
    """Make results comparable with native spec values (records -> tuples)."""
    if dataclasses.is_dataclass(v) and not isinstance(v, type) and ty.has_record(type(v).__name__):
        _, fields = ty.record(type(v).__name__)
        return tuple(normalize(getattr(v, f)) for f, _ in fields)
    if isinstance(v, list):
        return [normalize(x) for x in v]
    if isinstance(v, tuple):
        return tuple(normalize(x) for x in v)
    return v


def spec_env():
    env = {"implies": implies, "iff": lambda a, b: bool(a) == bool(b), "old": lambda x: x, "_snap": _snap}
    try:
        import nix_manipulator.expressions as _ex
        from nix_manipulator.expressions.set import _AttrpathEntry
        from nix_manipulator.expressions.scope import Scope, ScopeState
        from nix_manipulator.expressions.expression import NixExpression

        for k in getattr(_ex, "__all__", []):
            env[k] = getattr(_ex, k)
        env.update(_AttrpathEntry=_AttrpathEntry, Scope=Scope, ScopeState=ScopeState, NixExpression=NixExpression)
    except Exception:
        pass
    for name, sp in SPECS.items():
        env[name] = sp.py
        for k, o in sp.globals.items():
            if k.isupper() and isinstance(o, (bool, int, str)):
                env.setdefault(k, o)
    return env


class NativeOutcome:
    def __init__(self):
        self.kind = None  # return | raise
        self.exc = None
        self.exc_repr = None
        self.result = None
        self.failed = []  # clauses that evaluate to False
        self.pre_ok = True
        self.error = None

    @property
    def ok(self):
        return self.pre_ok and not self.failed and self.error is None

    def describe(self):
        if not self.pre_ok:
            return "precondition not met"
        if self.error:
            return f"native evaluation error: {self.error}"
        what = f"returned {self.result!r}" if self.kind == "return" else f"raised {self.exc_repr}"
        return f"{what}; failed clauses: {self.failed}"


def _forall_range(inputs):
    m = 2
    for v in inputs.values():
        if isinstance(v, (str, list)):
            m = max(m, len(v) + 2)
    return range(-1, m)


def check_native(c: Contract, inputs: dict, fn=None) -> NativeOutcome:
    out = NativeOutcome()
    env = spec_env()
    env.update(inputs)
    try:
        for cl in c.requires:
            if not ceval(cl, env):
                out.pre_ok = False
                return out
        for var, cl in c.requires_forall:
            for k in _forall_range(inputs):
                e2 = dict(env)
                e2[var] = k
                if not ceval(cl, e2):
                    out.pre_ok = False
                    return out
    except Exception as e:  # spec not evaluable on this input
        out.pre_ok = False
        out.error = None
        return out
    fn = fn or resolve_target(c.target)
    import inspect

    sig = inspect.signature(fn)
    args, kwargs = [], {}
    for name, p in sig.parameters.items():
        if name not in inputs:
            continue
        if p.kind == p.KEYWORD_ONLY:
            kwargs[name] = inputs[name]
        else:
            args.append(inputs[name])
    # pre-state values of old(...)
    prepared = {}
    try:
        all_clauses = list(c.ensures) + [cl for cls in c.exsures.values() for cl in cls]
        for cl in all_clauses:
            pre, code = prepare(cl)
            for name, pcode in pre:
                try:
                    env[f"{name}@{id(code)}"] = eval(pcode, env)
                except Exception as e:  # undefined in the pre-state: only an error if a clause really uses it
                    env[f"{name}@{id(code)}"] = _Undefined(e)
            prepared[cl] = (pre, code)
        snap0 = deep_snapshot(inputs) if any("heap_unchanged" in cl for cl in all_clauses) else None
        if any("alloc_at_entry" in cl for cl in all_clauses):
            seen0 = {}
            deep_snapshot(inputs, seen0)
            mark = _AllocMark(seen0)
            env["alloc_at_entry"] = lambda: mark
    except Exception as e:
        out.pre_ok = False
        return out

    def post_eval(cl):
        pre, code = prepared[cl]
        e2 = dict(env)
        for name, _p in pre:
            e2[name] = env[f"{name}@{id(code)}"]
        e2["heap_unchanged"] = lambda *relax: snapshots_agree(snap0, deep_snapshot(inputs), set(relax))
        return eval(code, e2)

    try:
        res = fn(*args, **kwargs)
        out.kind = "return"
        out.result = normalize(res)
    except Exception as e:
        out.kind = "raise"
        out.exc = e
        out.exc_repr = f"{type(e).__name__}({e})"
    try:
        if out.kind == "return":
            env["result"] = out.result
            for cl in c.ensures:
                if not post_eval(cl):
                    out.failed.append(cl)
        else:
            handled = None
            for name in c.exsures:
                if any(k.__name__ == name for k in type(out.exc).__mro__):
                    handled = name
                    break
            if handled is None:
                out.failed.append(f"no-unexpected-raise: {out.exc_repr}")
            else:
                for cl in c.exsures[handled]:
                    if not post_eval(cl):
                        out.failed.append(f"post-exc({handled}): {cl}")
    except Exception as e:
        out.error = f"{type(e).__name__}: {e}"
    return out


# ---------------------------------------------------------------------------------------------
# bounded domains

DEFAULT_ALPHABET = ["a", '"', "\\", ".", "$", "{", "}", "\n", "\r", "\t", " ", "n", "@", "'", "0", "é", "-"]


def strings(alphabet, max_len):
    for n in range(max_len + 1):
        for tup in itertools.product(alphabet, repeat=n):
            yield "".join(tup)


def default_domain(c: Contract, tier: str):
    """Product of small per-parameter domains derived from the declared parameter types."""
    spec = getattr(c, "domain", None)
    alphabet = (spec or {}).get("alphabet", DEFAULT_ALPHABET)
    max_len = (spec or {}).get("max_len", {"quick": 3, "thorough": 4}[tier])
    if tier == "thorough":
        max_len = (spec or {}).get("max_len_thorough", max_len)
    ints = (spec or {}).get("ints", [-1, 0, 1, 2, 3, 5])

    def dom(t):
        n = t.name
        if n in ("Str", "Char"):
            return list(strings(alphabet, max_len if n == "Str" else 1))
        if n == "Bytes":
            return [s.encode("utf-8") for s in strings(alphabet, max_len)]
        if n == "Bool":
            return [False, True]
        if n == "Int":
            return ints
        if n == "None":
            return [None]
        if n == "Opt":
            return [None] + dom(t.args[0])
        if n == "OneOf":
            out = []
            for a in t.args:
                out.extend(dom(a))
            return out
        raise NotImplementedError(n)

    names = list(c.params)
    doms = [dom(c.params[n]) for n in names]
    for tup in itertools.product(*doms):
        yield dict(zip(names, tup))
