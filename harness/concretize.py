"""Turn a (candidate) solver model of a heap obligation into real nix_manipulator objects, so that
the counterexample can be replayed on the real function."""
from __future__ import annotations

import z3

from pvc.heap import ELEM_SORT, TAG, field_sort
from pvc.solve import decode_z3_string
from specs import heap_schema as S

ID2CLS = {v: k for k, v in S.CLASSES.items()}


class Concretizer:
    def __init__(self, model, max_objects=60):
        self.m = model
        self.cache = {}
        self.desc = {}
        self.max_objects = max_objects

    def ev(self, t):
        return self.m.eval(t, model_completion=True)

    def field(self, f, ref):
        arr = z3.Const(f"H.{f}@0", z3.ArraySort(z3.IntSort(), field_sort(S.FIELDS[f])))
        return self.ev(z3.Select(arr, z3.IntVal(ref)))

    def as_py(self, v, kind):
        if kind == "bool":
            return z3.is_true(v)
        if kind == "str":
            return decode_z3_string(v.as_string())
        if kind == "int":
            return v.as_long()
        if kind.startswith("seq:"):
            from pvc.solve import model_value

            r = model_value(self.m, v)
            return tuple(r) if isinstance(r, list) else ()
        return None

    def build(self, ref: int, depth=0):
        from nix_manipulator.expressions import AttributeSet, Binding, Identifier, Inherit
        from nix_manipulator.expressions.layout import comma, empty_line, linebreak
        from nix_manipulator.expressions.scope import Scope, ScopeState
        from nix_manipulator.expressions.set import _AttrpathEntry

        if ref == 0:
            return None
        if ref in (1, 2, 3):
            return {1: linebreak, 2: empty_line, 3: comma}[ref]
        if ref in self.cache:
            return self.cache[ref]
        if len(self.cache) > self.max_objects or depth > 8:
            raise ValueError("model too large to concretise")
        cls = ID2CLS.get(self.ev(TAG(z3.IntVal(ref))).as_long(), "OtherExpression")
        if cls in ("list", "Scope"):
            lens = z3.Const("H.len@0", z3.ArraySort(z3.IntSort(), z3.IntSort()))
            elems = z3.Const("H.elem@0", z3.ArraySort(z3.IntSort(), ELEM_SORT))
            n = self.ev(z3.Select(lens, z3.IntVal(ref))).as_long()
            n = max(0, min(n, 6))
            out = Scope() if cls == "Scope" else []
            self.cache[ref] = out
            self.desc[ref] = dict(cls=cls, items=[])
            for i in range(n):
                r = self.ev(z3.Select(z3.Select(elems, z3.IntVal(ref)), z3.IntVal(i))).as_long()
                out.append(self.build(r, depth + 1))
                self.desc[ref]["items"].append(r)
            return out

        def f(name, kind=None):
            return self.as_py(self.field(name, ref), kind or S.FIELDS[name])

        def r(name):
            return self.field(name, ref).as_long()

        if cls == "Binding":
            obj = Binding.__new__(Binding)
            self.cache[ref] = obj
            Binding.__init__(obj, name=f("name"), value=None, nested=f("nested"))
            obj.value = self.build(r("value"), depth + 1)
            self.desc[ref] = dict(cls=cls, name=obj.name, nested=obj.nested, value=r("value"))
            return obj
        if cls == "AttributeSet":
            obj = AttributeSet.__new__(AttributeSet)
            self.cache[ref] = obj
            AttributeSet.__init__(obj, values=[], multiline=f("multiline"), recursive=f("recursive"))
            obj.values = self.build(r("values"), depth + 1) or []
            obj.attrpath_order = self.build(r("attrpath_order"), depth + 1) or []
            self.desc[ref] = dict(cls=cls, values=r("values"), attrpath_order=r("attrpath_order"))
            return obj
        if cls == "_AttrpathEntry":
            segs = f("segments")
            root = f("seg0")
            if not segs or segs[0] != root:
                segs = (root, "leaf")
            obj = _AttrpathEntry(segments=tuple(segs), binding=None)
            self.cache[ref] = obj
            obj.binding = self.build(r("binding"), depth + 1)
            self.desc[ref] = dict(cls=cls, segments=list(obj.segments), binding=r("binding"))
            return obj
        if cls == "Inherit":
            obj = Inherit(names=[Identifier(name=f"inh{ref}")])
            self.cache[ref] = obj
            self.desc[ref] = dict(cls=cls)
            return obj
        if cls == "ScopeState":
            obj = ScopeState()
            self.cache[ref] = obj
            self.desc[ref] = dict(cls=cls)
            return obj
        # any other expression: an opaque stand-in with its own identity
        obj = Identifier(name=f"obj{ref}")
        self.cache[ref] = obj
        self.desc[ref] = dict(cls=cls, stand_in="Identifier")
        return obj


def inputs_from_model(contract, model, input_terms):
    """Build the argument dict of a contract from a model; returns (inputs, description)."""
    conc = Concretizer(model)
    inputs = {}
    for name, t in contract.params.items():
        term = input_terms.get(name)
        if t.name in ("Ref", "ListRef"):
            if term is None:
                raise ValueError(f"no term for {name}")
            ref = model.eval(term, model_completion=True).as_long()
            inputs[name] = conc.build(ref)
        else:
            from pvc.solve import model_value

            if term is None:
                inputs[name] = None
            else:
                v = model_value(model, term)
                inputs[name] = v
    return inputs, conc.desc
