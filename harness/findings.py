"""known_findings.json: genuine defects of the unchanged tree that were recorded instead of
repaired.  Never written at run time.  Entry kinds:

  obligation : {"property", "obligation": "<contract>/<kind>[<label>]"}      (proof / analysis obligations)
  input      : {"property", "contract" | "check", "inputs": {...}}           (exact failing input)
  signature  : {"property", "check", "signature": "..."}                     (bounded stand-ins: one defect, many programs)
  fixed      : {"fixed": "property=<id> <commit> <what failed>"}             (suppresses nothing)
"""
from __future__ import annotations

import json
import os

ROOT = os.path.dirname(os.path.dirname(os.path.abspath(__file__)))


def load():
    p = os.path.join(ROOT, "known_findings.json")
    if not os.path.exists(p):
        return []
    return json.load(open(p)).get("findings", [])


def match(findings, prop, v):
    for f in findings:
        if "fixed" in f or (f.get("property") != prop and prop not in f.get("properties", [])):
            continue
        k = f.get("kind")
        if k == "obligation" and v.get("obligation") == f["obligation"]:
            return f
        if k == "native-clause" and v.get("source") == "native-contract" and v.get("contract") == f["contract"] \
                and v.get("failed") and all(cl in f["clauses"] for cl in v["failed"]):
            return f
        if k == "input":
            fi = v.get("failing_input") or {}
            if (f.get("contract") in (None, v.get("contract"))) and f.get("check") in (None, v.get("check")) \
                    and (fi.get("inputs") == f["inputs"] or v.get("inputs") == f["inputs"]):
                return f
        if k == "signature" and v.get("signature") == f["signature"] and f.get("check") in (None, v.get("check")):
            return f
    return None
