"""obligations.lock: per contract, the source hash of the verified function and the number of proof
obligations generated from it on the committed tree.  Vacuity guard: with an unchanged function
source the number must not change (a drop means the generator silently skipped something)."""
import json
import os
import sys

ROOT = os.path.dirname(os.path.dirname(os.path.abspath(__file__)))
sys.path.insert(0, ROOT)
LOCK = os.path.join(ROOT, "contracts", "obligations.lock")


def load():
    if os.path.exists(LOCK):
        return json.load(open(LOCK))
    return {}


def main():
    from harness.check import prove
    from pvc.run import load_contracts

    reg = load_contracts()
    names = [n for n, c in reg.items() if not c.trusted]
    res = prove(names, "quick")
    lock = {}
    for r in res:
        lock[r["name"]] = dict(src_hash=r["src_hash"], obligations=len([o for o in r["obligations"] if not o["must_fail"]]),
                               status=r["status"], undischarged=sorted(o["name"] for o in r["obligations"]
                                                                        if not o["must_fail"] and o["status"] != "discharged"))
    json.dump(lock, open(LOCK, "w"), indent=1, sort_keys=True)
    print(f"locked {len(lock)} contracts, {sum(v['obligations'] for v in lock.values())} obligations; "
          f"not discharged: {sum(len(v['undischarged']) for v in lock.values())}")
    for k, v in lock.items():
        if v["status"] != "ok" or v["undischarged"]:
            print("  ", k, v["status"], v["undischarged"][:3])


if __name__ == "__main__":
    main()
