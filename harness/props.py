"""Per-property configuration of the checks (which analyses / bounded stand-ins run, claimed level)."""

TRUSTED_COMMON = [
    "pvc engine: Python-subset semantics as encoded (DESIGN.md 2.2); induction principle behind fold/absorbing lemmas",
    "z3 5.1 / cvc5 1.0.3 soundness",
    "specification library /verif/specs (Nix string lexer automaton, NPath grammar, abstract views)",
]

NOT_APPLICABLE = {}

PROPS = {
    "C09": dict(
        level="proof", bounded=None, trusted_base=TRUSTED_COMMON,
        technique="deductive verification (pvc VC generation over the real source + z3/cvc5) of the selector/layer functions",
        text="selector splitting proved for all strings against the leading-@ characterisation",
        note="see evidence.assumptions and trusted_base",
    ),
    "C12": dict(
        level="proof", bounded=None, trusted_base=TRUSTED_COMMON,
        technique="deductive verification (pvc VC generation over the real source + z3/cvc5): tokenizer vs grammar automaton, escaper vs Nix string-lexer automaton",
        text="NPath tokenizer proved equivalent to the grammar automaton and attribute-name escaping proved to round-trip through the Nix string lexer, for all strings",
        note="see evidence.assumptions and trusted_base",
    ),
}
