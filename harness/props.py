"""Per-property configuration of the checks (which analyses / bounded stand-ins run, claimed level)."""

TRUSTED_COMMON = [
    "pvc engine: Python-subset semantics as encoded (DESIGN.md 2.2); induction principle behind fold/absorbing lemmas",
    "z3 5.1 / cvc5 1.0.3 soundness",
    "specification library /verif/specs (Nix string lexer automaton, NPath grammar, abstract views)",
]

NOT_APPLICABLE = {}

RT_NOTE = ("bounded stand-in: the property is a postcondition on the real entry point parse(text).rebuild(), evaluated on the "
           "exhaustive single-gap enumeration of bounded/nixgen.py with tree-sitter leaves as independent oracle; composition of "
           "the ~6 kLOC layout code is outside the verifier's reach (DESIGN.md 1.2), so nothing here is counted as proved; "
           "helper obligations that are discharged are reported in coverage.obligations/discharged")


def _rt(text):
    return dict(level="exploration", trusted_base=TRUSTED_COMMON + ["tree-sitter-nix 0.1.0 as tokenizer (trailing comma in formals tolerated)"],
                technique="contracts on the real code: helper functions by pvc where reached; composition decided by a run-time-checked postcondition on parse().rebuild() over an exhaustively enumerated bounded program space (labelled bounded)",
                text=text, note=RT_NOTE)


PROPS = {
    "C01": dict(_rt("token sequence of every enumerated program survives the round trip"), bounded="bounded.b_c01"),
    "C02": dict(_rt("generated RFC-0166 files are reproduced byte for byte"), bounded="bounded.b_c02"),
    "C03": dict(_rt("comments of every enumerated program survive once, in order, on the same side of every non-delimiter token"), bounded="bounded.b_c03"),
    "C06": dict(_rt("rebuilt text of every enumerated program with line-level comments is a fixed point"), bounded="bounded.b_c06"),
    "C15": dict(_rt("deep snapshot of the tree (incl. Scope.owner, list identities) equal before/after rebuild; repeated rebuild equal"), bounded="bounded.b_c15", analyses=["analyses.purity", "analyses.global_state"]),
    "C18": dict(_rt("lexical scan of every inter-token gap of the rebuilt text"), bounded="bounded.b_c18"),
    "C04": dict(level="exploration", bounded="bounded.b_c04", trusted_base=TRUSTED_COMMON + ["tree-sitter-nix as independent tokenizer / extent oracle"],
                technique="contracts on the real code: frames of the edit functions by pvc where reached; text locality decided by a run-time-checked postcondition on set_value/remove_value over an enumerated document x path x value space (labelled bounded)",
                text="outside the addressed binding (value extent / inserted lines / removed binding with its trivia) input and output bytes are equal",
                note="bounded; see DESIGN.md C04"),
    "C05": dict(level="exploration", bounded="bounded.b_c05", trusted_base=TRUSTED_COMMON + ["reference model of the documented edit semantics (bounded/edits.py)", "independent CST reader (bounded/readers.py)"],
                technique="contracts on the real code: path tokenizer/formatter proved by pvc; edit results decided by a run-time-checked postcondition (attribute tree read from the output CST equals the reference model) over enumerated single edits and edit sequences (labelled bounded)",
                text="every successful edit emits valid Nix whose attribute tree equals the reference model; refusals only for the model's reasons",
                note="bounded; see DESIGN.md C05"),
    "C08": dict(level="exploration", bounded="bounded.b_c08", trusted_base=TRUSTED_COMMON,
                technique="contracts on the real code: main() exceptional postconditions by pvc; document unchanged after a refused edit decided by run-time-checked postconditions over the enumerated edit space (labelled bounded)",
                text="a refused edit raises KeyError/ValueError, leaves rebuild() unchanged, and later edits behave as on a fresh parse",
                note="bounded; see DESIGN.md C08"),
    "C10": dict(level="exploration", bounded="bounded.b_c10", analyses=["analyses.global_state"], trusted_base=TRUSTED_COMMON,
                technique="contracts on the real code: context-registry obligations by pvc where reached; precedence decided by a run-time-checked postcondition on Identifier.value over all scope nestings up to a depth bound, expected binder computed on the generator's description (labelled bounded)",
                text="resolution result equals the binder Nix scoping designates on every enumerated nesting; unbound/cyclic names raise ResolutionError; no context leaks between documents over a create/resolve/discard history",
                note="bounded; see DESIGN.md C10"),
    "C11": dict(level="exploration", bounded="bounded.b_c11", trusted_base=TRUSTED_COMMON,
                technique="contracts on the real code: run-time-checked postcondition on set_value over constructed documents whose defining binding is known by construction (labelled bounded)",
                text="exactly the defining binding changes on every constructed case; unbound names overwrite the path binding",
                note="bounded; see DESIGN.md C11"),
    "C13": dict(level="exploration", bounded="bounded.b_c13", analyses=["analyses.global_state"], trusted_base=TRUSTED_COMMON + ["independent CST value reader (bounded/b_c13.py)"],
                technique="contracts on the real code: string escaping proved by pvc against the Nix string-lexer automaton (for all strings); containers, numbers and contexts decided by run-time-checked postconditions over an enumerated value space (labelled bounded)",
                text="every enumerated Python value renders to text that an independent reader decodes to the same value, deterministically and stably",
                note="float -> text is outside the verifier (no float theory in the encoding): floats are bounded only"),
    "C14": dict(level="exploration", bounded="bounded.b_c14", trusted_base=TRUSTED_COMMON + ["independent CST reader (bounded/readers.py)"],
                technique="contracts on the real code: representation invariant / dictionary-law obligations on the mapping dunders by pvc where reached; text/mapping agreement decided by run-time-checked postconditions over all short scripts of mapping operations (labelled bounded)",
                text="after every step of every enumerated script: text tree == dict model == lookups; KeyError without side effects",
                note="bounded; see DESIGN.md C14"),
    "C16": dict(level="proof", bounded="bounded.b_c16", analyses=["analyses.global_state"], trusted_base=TRUSTED_COMMON + ["assumed contracts on argparse, parse, set_value, remove_value, rebuild (listed in evidence.assumptions)"],
                technique="deductive verification (pvc) of cli/main.py::main against a contract stated relative to uninterpreted library functions; subprocess runs as bounded cross-check",
                text="main(): verdict/exit code of `test`, stdout of set/rm = library text with a line terminator only when missing, nothing on stdout when an edit raises - proved for all inputs under the assumed library contracts",
                note="argument/input-channel wiring inside argparse is assumed (External contract on parser.parse_args / args.file.read), and sampled by the subprocess stand-in"),
    "C17": dict(level="exploration", bounded="bounded.b_c17", analyses=["analyses.global_state"], trusted_base=TRUSTED_COMMON + ["pathlib / OS path semantics"],
                technique="contracts on the real code: resolved_path / import following by pvc where reached; run-time-checked postconditions over generated directory layouts x working directories (labelled bounded)",
                text="every lookup through import chains returns the value planted in the file relative to the importing file, for all cwd/spelling combinations; the three error cases raise the documented types",
                note="bounded; see DESIGN.md C17"),
    "C19": dict(level="exploration", bounded="bounded.b_c19", trusted_base=TRUSTED_COMMON,
                technique="contracts on the real code: laws checked as run-time postconditions on alternative edit sequences over the enumerated document space (labelled bounded)",
                text="idempotence, set/rm restoration, rm/set tree restoration and commutation hold on every enumerated document",
                note="bounded; see DESIGN.md C19"),
    "C07": dict(level="fault_enumeration", bounded="bounded.b_c07", trusted_base=TRUSTED_COMMON + ["tree-sitter-nix 0.1.0 decides what a syntax error is"],
                technique="contracts on the real code: CLI verdict/exit code proved by pvc on main(); pass-through and refusal decided by run-time-checked postconditions over an exhaustive fault enumeration (labelled bounded)",
                text="every damaged text (token deleted/duplicated, delimiter inserted, truncated at every byte, whitespace-wrapped) is passed through byte for byte, fails `nima test`, and is refused by set/rm and as a VALUE",
                note="the test-verdict branch of main() is proved (contract `main`); pass-through through tree-sitter is bounded"),
    "C20": dict(level="exploration", bounded="bounded.b_c20", analyses=["analyses.cost"], trusted_base=TRUSTED_COMMON,
                technique="contracts on the real code: ghost rebuild-call bound (analysis) where built; exception types and rebuild-call growth decided by run-time-checked postconditions on bounded families (labelled bounded)",
                text="only documented error types escape parse+rebuild on valid/damaged/UTF-8 texts; rebuild-call counts stay polynomial on 19 nesting families",
                note="CPU time itself, tree-sitter on arbitrary bytes and Python recursion limits are not addressed (DESIGN.md C20 N/A part)"),
    "C09": dict(
        level="proof", bounded="bounded.b_c09", trusted_base=TRUSTED_COMMON,
        technique="deductive verification (pvc VC generation over the real source + z3/cvc5) of the selector/layer functions",
        text="selector splitting proved for all strings against the leading-@ characterisation",
        note="see evidence.assumptions and trusted_base",
    ),
    "C12": dict(
        level="proof", bounded="bounded.b_c12", trusted_base=TRUSTED_COMMON + ["independent Nix string decoder and CST reader (specs/nixlex.py, bounded/readers.py)"],
        technique="deductive verification (pvc VC generation over the real source + z3/cvc5): tokenizer vs grammar automaton, escaper vs Nix string-lexer automaton; the composition with the library re-reading what it wrote is a run-time-checked postcondition over enumerated names (labelled bounded)",
        text="NPath tokenizer proved equivalent to the grammar automaton and attribute-name escaping proved to round-trip through the Nix string lexer, for all strings",
        note="proved for all strings: _parse_npath, _format_attr_name, _escape_nix_string, the lookup helpers. NOT proved, bounded only (62 k names x set/set/rm): that the library finds the same binding again when it re-reads its own output (binding.py:_split_attrpath has no contract) and that spellings denote one attribute; see evidence.assumptions and trusted_base",
    ),
}

# Every property is stated "for every input / history": a result that depends on process-wide mutable state (a cache
# keyed by equality, a registry, a mutable default) depends on what the process did before, whatever the property is
# about.  The inventory of such state (analyses/global_state.py) is therefore an obligation of every check.
# The same holds for the frame of the rebuild call graph (analyses/purity.py): every property observes documents through
# rebuild() - a rebuild that writes into the document makes the second observation differ from the first.
for _p in PROPS.values():
    _a = list(_p.get("analyses") or [])
    for _m in ("analyses.global_state", "analyses.purity"):
        if _m not in _a:
            _a.append(_m)
    _p["analyses"] = _a
# The contract of `main` assumes that argparse hands out the argv texts unchanged; analyses/cli_wiring.py discharges that
# assumption on the declarations of build_parser.  It belongs to every property that speaks about the CLI channel.
for _k in ("C16", "C07", "C12", "C08"):
    if "analyses.cli_wiring" not in PROPS[_k]["analyses"]:
        PROPS[_k]["analyses"].append("analyses.cli_wiring")
