"""Regenerate MANIFEST.json from harness/props.py (single source of truth) and validate it."""
import json
import os
import subprocess
import sys

ROOT = os.path.dirname(os.path.dirname(os.path.abspath(__file__)))
sys.path.insert(0, ROOT)
from harness.props import PROPS, NOT_APPLICABLE  # noqa: E402

props = [json.loads(l) for l in open(os.path.join(ROOT, "properties.jsonl"))]
ids = [p["id"] for p in props]
try:
    commits = subprocess.run(["git", "-C", "/repo", "log", "--format=%h %s", "5e21c2a..HEAD"], capture_output=True, text=True).stdout.strip().splitlines()
except Exception:
    commits = []
hook_commits = [c.split()[0] for c in commits if not c.split(" ", 1)[1].startswith("fix:")]

checks = []
for pid in ids:
    if pid not in PROPS:
        continue
    P = PROPS[pid]
    checks.append({
        "property_id": pid,
        "quick_cmd": f"./bin/check {pid} --tier quick",
        "thorough_cmd": f"./bin/check {pid} --tier thorough",
        "evidence_file": f"/verif/evidence/{pid}.json",
        "replay_cmd_template": f"./bin/check {pid} --replay {{path}}",
        "engine": "pvc",
        "level_claimed": {"category": P["level"], "text": P["text"], "design_ref": P.get("design_ref", f"DESIGN.md 6 ({pid})")},
        "level_note": P["note"],
        "technique": P["technique"],
    })
na = [{"property_id": pid, "reason": NOT_APPLICABLE.get(pid, "no check built for this property yet (DESIGN.md 9, build order)")}
      for pid in ids if pid not in PROPS]
manifest = {
    "version": 1,
    "setup_cmd": "./bin/bootstrap",
    "hooks": {
        "guard": "NIMA_VERIF",
        "enable": "none needed: contracts are sidecar files under /verif/contracts, the verified text is re-read from /repo on every run, run-time monitors are installed inside the check process",
        "baseline_off_cmd": "cd /repo && /venv/bin/python -m pytest -ra -q -p no:cacheprovider --timeout=900 --continue-on-collection-errors",
        "source_commits": hook_commits,
        "add_only": True,
    },
    "engines": [
        {"name": "pvc", "path": "/verif/pvc", "serves_properties": [c["property_id"] for c in checks],
         "kind_free_text": "contract-based deductive verifier built here: verification-condition generator over the Python ast of the real /repo source (sidecar contracts in /verif/contracts, specs in /verif/specs), obligations discharged by z3 5.1 then cvc5 1.0.3; whole-class frame and ghost-cost analyses; the same contracts checked natively on bounded domains as the labelled bounded stand-in"},
    ],
    "checks": checks,
    "notes": "fix: commits in /repo are listed in known_findings.json as 'fixed' entries; see DESIGN.md for which checks catch which seeded changes",
    "not_applicable": na,
}
with open(os.path.join(ROOT, "MANIFEST.json"), "w") as fh:
    json.dump(manifest, fh, indent=1)
import jsonschema

jsonschema.validate(manifest, json.load(open("/root/.vp/MANIFEST.schema.json")))
print(f"MANIFEST.json: {len(checks)} checks, {len(na)} not_applicable; valid")
