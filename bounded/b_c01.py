"""Bounded stand-in for C01 (see bounded/roundtrip.py)."""
from bounded.roundtrip import replay_roundtrip, run_roundtrip


def run(tier, seed):
    return run_roundtrip("C01", tier, seed)


def replay(v):
    return replay_roundtrip("C01", v)
