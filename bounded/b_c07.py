"""Bounded stand-in for C07 (fault enumeration): every damaged text with a syntax error must be
passed through byte for byte, make `nima test` report Fail/1, and be refused by set/rm and as a VALUE."""
from __future__ import annotations

import io
import multiprocessing as mp
import os
import sys
import tempfile
import time
from contextlib import redirect_stderr, redirect_stdout

from bounded import nixgen as G


def _check(chunk):
    from nix_manipulator import parse
    from nix_manipulator.cli.main import main
    from nix_manipulator.cli.manipulations import remove_value, set_value

    bad = []
    n = 0
    n_err = 0
    tmp = tempfile.NamedTemporaryFile("w", suffix=".nix", delete=False, encoding="utf-8")
    tmp.close()
    for i, p in enumerate(chunk):
        t = p["text"]
        root = G.parse_cst(t)
        err = root.has_error
        n += 1

        def fail(sym):
            bad.append((p, sym))

        try:
            src = parse(t)
        except Exception as e:
            if err:
                fail(f"parse-raises:{type(e).__name__}")
            # an explicit ValueError on error-free but unsupported syntax is C20's documented refusal
            continue
        if err:
            n_err += 1
            if not src.contains_error:
                fail("error-not-flagged")
                continue
            try:
                r = src.rebuild()
            except Exception as e:
                fail(f"rebuild-raises:{type(e).__name__}")
                continue
            if r != t:
                fail("pass-through-changed-bytes")
            # every kind of path (plain, dotted, scoped at depth 1 and 2, scoped + dotted): the refusal must not depend on it
            paths = ("a", "@x", "a.b", "@@x", "@x.y") if i % 5 == 0 else (("a", "@x") if i % 2 else ("a", "@x.y"))
            for op in ("set", "rm"):
                for path in paths:
                    src2 = parse(t)
                    try:
                        out = set_value(src2, path, "1") if op == "set" else remove_value(src2, path)
                        fail(f"{op}-accepted-erroneous-source" + ("" if path == "a" else f":{path}"))
                    except (ValueError, KeyError):
                        if src2.rebuild() != t:
                            fail(f"{op}-refused-but-changed-document:{path}")
                    except Exception as e:
                        fail(f"{op}-raises:{type(e).__name__}" + ("" if path == "a" else f":{path}"))
            if i % 25 == 0:
                with open(tmp.name, "w", encoding="utf-8", newline="") as fh:
                    fh.write(t)
                buf = io.StringIO()
                try:
                    with redirect_stdout(buf):
                        rc = main(["test", "-f", tmp.name])
                except SystemExit as e:
                    rc = e.code
                if rc != 1 or buf.getvalue() != "Fail\n":
                    fail(f"cli-test-verdict:{rc}:{buf.getvalue()!r}")
        # as VALUE: refused unless it is exactly one well-formed expression
        n_exprs = len([c for c in root.children if c.type != "comment"])
        well_formed_one = (not err) and n_exprs == 1
        if not well_formed_one:
            doc = parse("{ a = 1; }\n")
            before = doc.rebuild()
            try:
                out = set_value(doc, "a", t)
                fail("invalid-value-accepted")
            except ValueError:
                if doc.rebuild() != before:
                    fail("refused-value-changed-document")
            except Exception as e:
                fail(f"value-raises:{type(e).__name__}")
            # the same through the CLI (the argument must reach the library as it was given): non-zero status, nothing on stdout
            if (i % 20 == 0 or not t.isascii()) and "\x00" not in t and not t.startswith("-"):
                old_stdin = sys.stdin
                sys.stdin = io.StringIO("{ a = 1; }\n")
                buf = io.StringIO()
                try:
                    with redirect_stdout(buf), redirect_stderr(io.StringIO()):
                        rc = main(["set", "a", t])
                except SystemExit as e:
                    rc = e.code if isinstance(e.code, int) else 1
                except Exception:
                    rc = 1
                finally:
                    sys.stdin = old_stdin
                if rc == 0 or buf.getvalue() != "":
                    fail("cli-accepts-invalid-value")
    os.unlink(tmp.name)
    return n, n_err, bad


# well-formed expressions wrapped in characters that Python's str methods treat as white space but Nix does not
EXOTIC_WS = ["\u00a0", "\u0085", "\u2028", "\u2029", "\u2003", "\u3000", "\x1c", "\x1f", "\x0b", "\x0c", "\ufeff", "\u200b"]


def exotic_values():
    for ws in EXOTIC_WS:
        for core in ("2", '"x"', "[ 1 2 ]", "{ k = 1; }", "a.b"):
            for shape in (ws + core, core + ws, ws + core + ws, " " + ws + core + "\n", core + " " + ws):
                yield dict(text=shape, template="exotic-whitespace", kind=f"U+{ord(ws):04X}")


# well-formed expressions in which one character is replaced by a look-alike that Unicode normalisation would map back to it
LOOKALIKES = {";": ["\u037e", "\uff1b"], "K": ["\u212a"], "=": ["\uff1d"], "{": ["\uff5b"], '"': ["\uff02", "\u201c"], "1": ["\uff11"], "A": ["\u212b"]}


def lookalike_values():
    for core in ("{ b = 1; }", "let x = 1; in x", "Kelvin", "x: x.K", '"A"', "{ K = 1; }"):
        for ch, subs in LOOKALIKES.items():
            if ch in core:
                for sub in subs:
                    yield dict(text=core.replace(ch, sub, 1), template="look-alike", kind=f"U+{ord(sub):04X}-for-{ch}")


def run(tier, seed):
    t0 = time.time()
    progs = list(G.faults(tier)) + list(exotic_values()) + list(lookalike_values())
    chunks = [progs[i::64] for i in range(64)]
    with mp.get_context("fork").Pool(16) as pool:
        res = pool.map(_check, [c for c in chunks if c], chunksize=1)
    n = sum(r[0] for r in res)
    n_err = sum(r[1] for r in res)
    by_sig = {}
    for _, _, bad in res:
        for p, sym in bad:
            sig = f"{sym}|{p['template']}|{p['kind']}"
            if sig not in by_sig:
                by_sig[sig] = dict(check="faults", signature=sig, what=f"C07 {sym} on damaged text {p['text']!r}", inputs={"text": p["text"]},
                                   has_input=True, failing_input={"inputs": {"text": p["text"]}, "observed": sym, "origin": "fault enumeration"})
    return dict(evaluations=n, distinct_nontrivial=n_err,
                rule=("fault enumeration over the canonical seed programs of nixgen.py: every token deleted, duplicated, every delimiter "
                      "inserted at every token boundary, truncation at every byte, 4 surrounding-whitespace variants, plus non-Nix texts; "
                      "distinct_nontrivial counts the distinct damaged texts for which tree-sitter reports an error"),
                samples=[dict(text=progs[i]["text"]) for i in (0, len(progs) // 3, len(progs) // 2, -1)],
                exhaustive=True, violations=list(by_sig.values()), seconds=time.time() - t0)


def replay(v):
    r = _check([dict(text=v["inputs"]["text"], template="replay", kind="replay")])
    print("input:", repr(v["inputs"]["text"]), "->", [s for _, s in r[2]])
    if r[2]:
        print("VIOLATION property=C07 replay=<given>")
        return 1
    return 0
