"""Deterministic enumeration of Nix programs with trivia in every inter-token gap, and the
independent oracles (tree-sitter leaves) used by the bounded stand-ins.

Programs are token lists; a *slot* is the gap before token k (slot 0 = file start, slot n = file
end).  A variant replaces the default separator of one slot by a filler.  A variant is kept only if
tree-sitter reports no error and the same code tokens as the canonical spelling.
"""
from __future__ import annotations

import itertools
import random
import re

import tree_sitter_nix as ts_nix
from tree_sitter import Language, Parser

_LANG = Language(ts_nix.language())
_PARSER = Parser(_LANG)

FILLERS = [
    "", " ", "  ", "\t", "\n", "\n\n", "\n\n\n", "\n    ", " # c\n", "\n# c\n", " /* c */ ", "\n/* c */\n",
    " /** d */ ", " /* m\n   n */ ", "\n\n# é\n\n", "\n  # c\n  # d\n",
    " # c\n\n", "\n# c\n\n# d\n", "\r\n", "\r\n\r\n", "\n\x0c\n",
    # comments of both kinds in one gap: a line comment, then a block comment on the line of the next token (and the reverse)
    " # c\n  /* d */ ", "\n/* c */ # d\n",
    # a comment that touches the previous token (no white space before its opener) / both neighbours
    "/* c */ ", "/* c */",
    # a block comment whose text starts on the line after the opener, placed on the line of the previous token
    " /*\n  m\n*/ ",
    # a line comment followed by a "blank" line made of CR / form feed (what counts as a blank line must not depend on who asks)
    " # c\r\n\r\n", " # c\n\x0c\n",
]

# comment texts whose wording is easy to damage: delimiters' own characters at either end, empty bodies, nested-looking openers,
# hash runs, no padding, unicode, trailing spaces (gap 'comment wording' of C03)
COMMENT_WORDINGS = [
    "# c", "#c", "#", "## c", "#! c", "# c #", "# c  d", "#  c", "# é", "# /* c */", "# c*/",
    "/* c */", "/*c*/", "/**/", "/* */", "/***/", "/** d */", "/**d*/", "/* c/*/", "/* c**/", "/* *c */", "/* /c */", "/*/ c */",
    "/* c /* d */", "/* # c */", "/* c  d */", "/* é */", "/*  c  */", "/* c\n   d */", "/*\n  c\n*/", "/* c\n * d\n */",
    "/*\n  c/\n*/", "/* c\n   d/*/", "/**\n  d\n*/", "/** d\n    e **/", "/* c\n\n   d */", "/*\tc\t*/",
    "/*\n\tc\n*/", "/*\n  \tc\n  */", "/* c\n\td */",
]
WORDING_HOSTS = {
    "own": "{\n  @C@\n  a = 1;\n}\n",
    "eol": "{\n  a = 1; @C@\n}\n",
    "inline": "{ a = @C@ 1; }\n",
    "head": "@C@\n{ a = 1; }\n",
    "list": "[\n  1\n  @C@\n  2\n]\n",
    "let": "let\n  @C@\n  a = 1;\nin\na\n",
}

PAIR_FILLERS = ["\n", " # c\n", "\n# c\n", " /* c */ ", "\n\n"]

ATOMS = ["a", "1", '"s"', "./p", "true", "null", "1.5", "x.y", "[ ]", "{ }"]
SUBS = ["{ x = 1; }", "[ 1 2 ]", "f x", "(a)", "let y = 1; in y", "x: x", "a + b", "if c then 1 else 2", "''\n  s\n''",
        "{ inherit z; }", "with p; q", "-a", "a ? b", "rec { u = 1; v = u; }", "a.b.c or d", "001",
        # lexical forms with their own node types: search path, home path, escapes and interpolation in both string kinds
        "<nixpkgs>", "~/x", '"s\\n${a}\\${b}"', "''\n  a ''${b} ${c}\n''", "a != b", "a >= b",
        # an expression that spans several lines by itself (multi-line set, call with a multi-line argument)
        "{\n  x = 1;\n}", "f {\n  x = 1;\n}"]
# (the empty list and the empty set are falsy-looking / comment-only containers once a gap filler lands inside them)
# (empty literals of every kind, strings whose content begins / ends with an escape)
_Q2 = "'" * 2
EMPTY_AND_EDGE_LITERALS = [_Q2 + _Q2, '""', '"\\"a\\""', '"a\\\\"', _Q2 + "\n  " + "'" * 3 + "\n" + _Q2]
SUBS += EMPTY_AND_EDGE_LITERALS
QUICK_SUBS = SUBS[:10] + SUBS[16:20] + ["[ ]", "{ }"] + SUBS[22:24] + EMPTY_AND_EDGE_LITERALS

# token templates; E = expression hole
TEMPLATES = {
    "attrset": "{ a = E ; b = E ; }",
    "attrset1": "{ a = E ; }",
    "recset": "rec { a = E ; b = a ; }",
    "attrpath": "{ a . b = E ; a . c = E ; d = E ; }",
    "attrpath_q": '{ "a b" . c = E ; }',
    "inherit": "{ inherit a b ; c = E ; }",
    "inherit_from": "{ inherit ( E ) a b ; }",
    "inherit_q": '{ inherit "a" b ; }',
    "list": "[ E E E ]",
    "list1": "[ E ]",
    # empty containers in inner positions (a gap filler between the delimiters makes them comment-only / blank-only)
    "attrset_elist": "{ a = [ ] ; b = E ; }",
    "attrset_eset": "{ a = { } ; }",
    "apply_elist": "f [ ] E",
    "lambda_elist": "a : [ ]",
    "let_elist": "let a = [ ] ; in [ ]",
    "list_elist": "[ E [ ] { } ]",
    # let layers that look alike (equal text is not the same layer)
    "let3_twins": "let a = E ; n = a ; in let a = b ; in let a = b ; in a",
    "let4_twins": "let a = E ; in let b = a ; in let c = a ; in let b = a ; in b",
    # a list whose one-line rendering is wider than the 100-column threshold of the layout code
    "list_wide": "{ a = [ a23456789012345678901234567890123456789012345678901234567890 b23456789012345678901234567890123456789012345678901234567890 ] ; }",
    "let": "let a = E ; b = E ; in E",
    "let_empty": "let in E",
    "let_inherit": "let inherit ( E ) a ; in E",
    "with": "with E ; E",
    "assert": "assert E ; E",
    "if": "if E then E else E",
    "lambda": "a : E",
    "lambda2": "a : b : E",
    "formals": "{ a , b } : E",
    "formals_default": "{ a , b ? E , ... } : E",
    "formals_at": "{ a } @ args : E",
    "at_formals": "args @ { a , ... } : E",
    "formals_empty": "{ } : E",
    "formals_ellipsis": "{ ... } : E",
    "apply": "f E",
    "apply2": "f E E",
    "import": "import E",
    "select": "E . a",
    "select2": "E . a . b",
    "select_default": "E . a or E",
    "select_str": 'E . "k" . ${ E }',
    "hasattr": "E ? a",
    "hasattr2": "E ? a . b",
    "neg": "- E",
    "not": "! E",
    "paren": "( E )",
    "interp": '"a${ E }b"',
    "binop_plus": "E + E",
    "binop_concat": "E ++ E ++ E",
    "binop_update": "E // E",
    "binop_and": "E && E || E",
    "binop_impl": "E -> E",
    "binop_eq": "E == E",
    "binop_cmp": "E < E",
    "binop_mul": "E * E - E",
    "binop_div": "E / E",
    "pkg": "{ lib , stdenv } : stdenv . mkDerivation { pname = E ; meta = { broken = E ; } ; }",
    "letset": "{ p } : let v = E ; in { a = v ; }",
    # canonical multi-line layouts (a marker token ⏎n = line break + n spaces before the next token)
    "ml_set": "{ ⏎2 a = E ; ⏎2 b = E ; ⏎0 }",
    "ml_list": "[ ⏎2 E ⏎2 E ⏎0 ]",
    "ml_let": "let ⏎2 a = E ; ⏎2 b = E ; ⏎0 in ⏎0 E",
    "ml_let3": "let ⏎2 a = E ; ⏎0 in ⏎0 let ⏎2 b = a ; ⏎0 in ⏎0 let ⏎2 c = b ; ⏎0 in ⏎0 c",
    "ml_chain_update": "E ⏎0 // E ⏎0 // E",
    "ml_chain_concat": "E ⏎0 ++ E ⏎0 ++ E",
    "ml_chain_op_first": "E ⏎0 // ⏎2 E ⏎0 // E",
    "ml_lambda_chain": "{ base , overrides , extra } : ⏎0 base ⏎0 // ⏎2 overrides ⏎0 // extra",
    "ml_with_chain": "with lib ; ⏎0 a ⏎0 ++ ⏎2 b ⏎0 ++ c",
    "ml_if": "if E ⏎0 then ⏎2 E ⏎0 else ⏎2 E",
    "ml_lambda_set": "{ pkgs } : ⏎0 { ⏎2 a = E ; ⏎2 b = E ; ⏎0 }",
    "ml_call_set": "f { ⏎2 a = E ; ⏎2 m = { ⏎4 x = E ; ⏎2 } ; ⏎0 }",
    "ml_inherit": "{ ⏎2 inherit a b ; ⏎2 inherit ( E ) c ; ⏎0 }",
    "ml_assert": "assert E ; ⏎0 E",
    "ml_with": "with E ; ⏎0 E",
    "ml_attrpath": "{ ⏎2 a . b = E ; ⏎2 a . c = E ; ⏎0 }",
    "ml_istr": "{ ⏎2 s = '' ⏎4 line ⏎2 '' ; ⏎0 }",
    "let3": "let a = E ; in let b = a ; in let c = b ; in c",
    "let4": "let a = E ; in let b = a ; in let c = b ; in let d = c ; in d",
    "lambda3": "a : b : c : E",
    "with3": "with a ; with b ; with E ; x",
    "set3": "{ a = { b = { c = E ; } ; } ; }",
    "list3": "[ [ [ E ] ] ]",
    "paren3": "( ( ( E ) ) )",
    "call3": "f ( g ( h E ) )",
    "if3": "if a then b else if c then d else if e then g else E",
}
OPS_HARD = None


_TRAILING_COMMA = re.compile(rb",(\s*(?:#[^\n]*\n\s*|/\*.*?\*/\s*)*)\}(\s*(?:#[^\n]*\n\s*|/\*.*?\*/\s*)*)(:|@)", re.S)


def parse_cst(text: str):
    return _PARSER.parse(text.encode("utf-8")).root_node


def parse_cst_lenient(text: str):
    """Parse, tolerating the one construct real Nix accepts but the installed tree-sitter-nix 0.1.0
    rejects: a trailing comma in a formals list (`{ a, }: a`).  The comma is blanked out (same
    length, so offsets stay valid) and only if the text does not parse as it stands."""
    root = parse_cst(text)
    if not root.has_error:
        return root, text
    b = text.encode("utf-8")
    b2 = _TRAILING_COMMA.sub(lambda m: b" " + m.group(1) + b"}" + m.group(2) + m.group(3), b)
    if b2 != b:
        r2 = _PARSER.parse(b2).root_node
        if not r2.has_error:
            return r2, b2.decode("utf-8")
    return root, text


def leaves(node, out=None):
    """(type, text, start, end) of all leaf nodes, comments included, in source order."""
    if out is None:
        out = []
    if node.type == "comment":
        out.append(("comment", node.text.decode(), node.start_byte, node.end_byte))
        return out
    if not node.children:
        if node.end_byte > node.start_byte:
            out.append((node.type, node.text.decode(), node.start_byte, node.end_byte))
        return out
    for ch in node.children:
        leaves(ch, out)
    return out


def has_error(root) -> bool:
    if root.has_error:
        return True
    return False


DELIMS = {";", ",", "=", ":", "@", "(", ")", "[", "]", "{", "}", "${", '"', "''"}


def code_tokens(lv):
    return [(t, x) for (t, x, _s, _e) in lv if t != "comment"]


def normalize_tokens(toks):
    """The three value-preserving normalisations allowed by C01."""
    out = []
    i = 0
    toks = list(toks)
    while i < len(toks):
        t, x = toks[i]
        if t == "integer_expression":
            try:
                x = str(int(x))
            except ValueError:
                pass
        # a binding-less `let in` wrapper may be elided
        if t == "let" and i + 1 < len(toks) and toks[i + 1][0] == "in":
            i += 2
            continue
        # a trailing comma may be added to a formals list
        if t == "," and i + 1 < len(toks) and toks[i + 1][0] == "}":
            i += 1
            continue
        out.append((t, x))
        i += 1
    return out


def norm_comment(text: str) -> str:
    if text.startswith("#"):
        return "#" + text[1:].strip()
    body = text
    if body.startswith("/**") and len(body) >= 5:
        body = body[3:]
        kind = "/**"
    else:
        body = body[2:]
        kind = "/*"
    if body.endswith("*/"):
        body = body[:-2]
    lines = [ln.strip() for ln in body.split("\n")]
    while lines and not lines[0]:
        lines.pop(0)
    while lines and not lines[-1]:
        lines.pop()
    return kind + "\n".join(lines)


def comment_profile(lv):
    """[(normalised text, number of hard (non-delimiter) code tokens before it)]"""
    prof = []
    hard = 0
    code = [(t, i) for i, (t, _x, _s, _e) in enumerate(lv) if t != "comment"]
    elided = set()
    for k in range(len(code) - 1):
        if code[k][0] == "let" and code[k + 1][0] == "in":  # binding-less wrapper may be elided
            elided.add(code[k][1])
            elided.add(code[k + 1][1])
    for i, (t, x, _s, _e) in enumerate(lv):
        if t == "comment":
            prof.append((norm_comment(x), hard))
        elif t not in DELIMS and i not in elided:
            hard += 1
    return prof


def comments_line_level(text: str, lv) -> bool:
    """Every comment is followed only by blanks up to the end of its line (own-line or end-of-line)."""
    for t, x, s, e in lv:
        if t != "comment":
            continue
        b = text.encode("utf-8")
        j = e
        while j < len(b) and b[j] in (32, 9):
            j += 1
        if j < len(b) and b[j] != 10:
            return False
    return True


# ---------------------------------------------------------------------------------------------


def tokenize_template(tpl: str, fill: list):
    """-> [(kind, word, default separator before the token)]"""
    toks = []
    k = 0
    sep = " "
    for w in tpl.split(" "):
        if w.startswith("⏎"):
            sep = "\n" + " " * int(w[1:] or 0)
            continue
        if w == "E":
            toks.append(("E", fill[k], sep))
            k += 1
        else:
            toks.append(("T", w, sep))
        sep = " "
    return toks


def default_sep(prev: str, cur: str) -> str:
    return " "


def render(toks, slot=None, filler=None, lead="", trail="\n"):
    parts = []
    n = len(toks)
    fills = slot if isinstance(slot, dict) else ({slot: filler} if slot is not None else {})
    for i, tok in enumerate(toks):
        w = tok[1]
        sep = tok[2] if len(tok) > 2 else " "
        if i == 0:
            parts.append(fills[0] if 0 in fills else lead)
        else:
            parts.append(fills[i] if i in fills else sep)
        parts.append(w)
    parts.append(fills[n] if n in fills else trail)
    text = "".join(parts)
    # string interpolation template pieces must stay glued
    return text


def glue(text: str) -> str:
    return text.replace('"a${ ', '"a${').replace(' }b"', '}b"')


def hole_count(tpl: str) -> int:
    return sum(1 for w in tpl.split(" ") if w == "E")


def adapt_filler(f, tok):
    """A filler placed in a gap whose canonical separator is a line break keeps the line structure:
    the comment / blank lines go before the token's own line break and indentation."""
    sep = tok[2] if len(tok) > 2 else " "
    if not sep.startswith("\n"):
        return f
    if f in ("", " ", "  ", "\t"):
        return None  # would join two lines: a different program shape (covered by the one-line templates)
    body = f.rstrip(" \n") if f.strip() else ""
    if f.strip():
        lead = " " if not f.startswith("\n") else "\n" + sep[1:]
        return lead + f.strip(" \n") + sep
    return f.rstrip(" ") + sep[1:] if f.count("\n") else sep


def base_programs(tier: str):
    """(template id, hole filling id, token list)"""
    for name, tpl in TEMPLATES.items():
        n = hole_count(tpl)
        yield name, "atoms", tokenize_template(tpl, ["a"] * n if n else [])
        for h in range(n):
            for sub in (SUBS if tier == "thorough" else QUICK_SUBS):
                fill = ["a"] * n
                fill[h] = sub
                yield name, f"h{h}={sub}", tokenize_template(tpl, fill)
        if tier == "thorough":
            for h in range(n):
                for atom in ATOMS[1:]:
                    fill = ["a"] * n
                    fill[h] = atom
                    yield name, f"h{h}={atom}", tokenize_template(tpl, fill)
    # every one-line construct once more as the value of a binding (rendered at indent 2: layout code that passes an
    # indent on to comments / nested parts only shows there); plain atoms in the holes
    for name, tpl in TEMPLATES.items():
        if name.startswith("ml_") or "⏎" in tpl:
            continue
        n = hole_count(tpl)
        yield name + "@binding", "atoms", tokenize_template("{ k = " + tpl + " ; }", ["a"] * n if n else [])
    for i, atom in enumerate(ATOMS + SUBS):
        yield "atom", atom, [("T", atom)]


def _singles(toks, text):
    """Single-slot reductions of a multi-slot variant: recover each slot's filler from the text."""
    # re-split the text at the token boundaries (tokens occur in order)
    out = []
    b = text
    pos = 0
    gaps = []
    for tok in toks:
        w2 = tok[1]
        idx = b.find(w2, pos)
        if idx < 0:
            return []
        gaps.append(b[pos:idx])
        pos = idx + len(w2)
    gaps.append(b[pos:])
    for slot, g in enumerate(gaps):
        default = "" if slot == 0 else ("\n" if slot == len(toks) else " ")
        if g != default and g in FILLERS:
            t1 = glue(render(toks, slot, g))
            r = parse_cst(t1)
            if not has_error(r):
                out.append(dict(id=f"single|s{slot}", text=t1, template="", slot=slot, filler=g, ctx=_ctx_for(toks, slot, g)))
    return out


def _ctx_for(toks, slot, f):
    """Byte position of the filler of `slot` in the rendered variant and its CST context."""
    pre = []
    for i, tok in enumerate(toks[:slot]):
        pre.append("" if i == 0 else (tok[2] if len(tok) > 2 else " "))
        pre.append(tok[1])
    prefix = glue("".join(pre))
    text = glue(render(toks, slot, f))
    # glue() may have removed one space right before the filler position
    pos = len(prefix.encode("utf-8"))
    if not text.encode("utf-8").startswith(prefix.encode("utf-8")):
        pos = max(0, pos - 1)
    return gap_context(text, pos, len(f.encode("utf-8")))


def programs(tier: str, seed: int = 0):
    """Yield dict(id, text, canonical) for every valid single-slot variant."""
    seen = set()
    for name, fid, toks in base_programs(tier):
        canon = glue(render(toks))
        root = parse_cst(canon)
        if has_error(root):
            continue
        canon_tokens = code_tokens(leaves(root))
        if canon not in seen:
            seen.add(canon)
            yield dict(id=f"{name}|{fid}|canon", text=canon, template=name, slot=None, filler=None)
        full = fid == "atoms" or tier == "thorough"
        slots = range(len(toks) + 1)
        for slot in slots:
            fillers = FILLERS if full else FILLERS[4:12:2]
            for f0 in fillers:
                f = f0
                if 0 < slot < len(toks):
                    f = adapt_filler(f0, toks[slot])
                    if f is None:
                        continue
                text = glue(render(toks, slot, f))
                if text in seen:
                    continue
                r2 = parse_cst(text)
                if has_error(r2):
                    continue
                if code_tokens(leaves(r2)) != canon_tokens:
                    continue
                seen.add(text)
                pos = len(glue(render(toks[:slot], None, None, trail="")).encode("utf-8")) if slot else 0
                if slot and slot < len(toks):
                    pass
                yield dict(id=f"{name}|{fid}|s{slot}|{FILLERS.index(f0)}", text=text, template=name, slot=slot, filler=f0,
                           ctx=_ctx_for(toks, slot, f))
                # the same variant in a file that starts with whitespace (gap offsets are absolute: C01 state _SOURCE_BYTES)
                if full and slot > 0 and f0 in (" # c\n", "\n# c\n", "\n\n", " /* c */ "):
                    t2 = "\n  " + text
                    if t2 not in seen and not has_error(parse_cst(t2)):
                        seen.add(t2)
                        yield dict(id=f"{name}|{fid}|s{slot}|{FILLERS.index(f0)}|lead", text=t2, template=name, slot=slot, filler=f0,
                                   ctx=None, lead_of=text)
    # two adjacent gaps filled at once (layout code often looks at the gap before and the gap after a token together):
    # a small filler alphabet, base programs with plain atoms only; deterministic, so signatures are stable
    for name, fid, toks in base_programs(tier):
        if fid != "atoms":
            continue
        canon = glue(render(toks))
        root = parse_cst(canon)
        if has_error(root):
            continue
        canon_tokens = code_tokens(leaves(root))
        for slot in range(1, len(toks)):
            for i1, f1 in enumerate(PAIR_FILLERS):
                for i2, f2 in enumerate(PAIR_FILLERS):
                    g1 = adapt_filler(f1, toks[slot]) if slot < len(toks) else f1
                    g2 = adapt_filler(f2, toks[slot + 1]) if slot + 1 < len(toks) else f2
                    if g1 is None or g2 is None:
                        continue
                    text = glue(render(toks, {slot: g1, slot + 1: g2}))
                    if text in seen:
                        continue
                    r2 = parse_cst(text)
                    if has_error(r2) or code_tokens(leaves(r2)) != canon_tokens:
                        continue
                    seen.add(text)
                    yield dict(id=f"{name}|atoms|p{slot}|{i1}-{i2}", text=text, template=name, slot=(slot, slot + 1), filler=f1 + "+" + f2,
                               ctx=_ctx_for(toks, slot, g1), pair=(filler_class(f1), filler_class(f2)),
                               singles_text=[glue(render(toks, slot, g1)), glue(render(toks, slot + 1, g2))])
    # two gaps that are NOT next to each other, each with an own-line comment of its own wording (code that distributes comments
    # over several children of one node - both branches of an `if`, value and body, ... - can mix them up)
    for name, fid, toks in base_programs(tier):
        if fid != "atoms" or len(toks) > 16:
            continue
        canon = glue(render(toks))
        root = parse_cst(canon)
        if has_error(root):
            continue
        canon_tokens = code_tokens(leaves(root))
        for s1 in range(1, len(toks)):
            for s2 in range(s1 + 2, len(toks)):
                g1 = adapt_filler("\n# p\n", toks[s1])
                g2 = adapt_filler("\n# q\n", toks[s2])
                if g1 is None or g2 is None:
                    continue
                text = glue(render(toks, {s1: g1, s2: g2}))
                if text in seen:
                    continue
                r2 = parse_cst(text)
                if has_error(r2) or code_tokens(leaves(r2)) != canon_tokens:
                    continue
                seen.add(text)
                yield dict(id=f"{name}|atoms|d{s1}-{s2}", text=text, template=name, slot=(s1, s2), filler="\n# p\n+\n# q\n",
                           ctx=_ctx_for(toks, s1, g1), ctx2=_ctx_for(toks, s2, g2), pair=("comment-line-own", "comment-line-own"), distant=True,
                           singles_text=[glue(render(toks, s1, g1.replace("# p", "# c"))), glue(render(toks, s2, g2.replace("# q", "# c")))])
    # comment wordings: the text inside a comment is the user's; only indentation and delimiter padding may be normalised (C03)
    for host, tpl in WORDING_HOSTS.items():
        for k, w in enumerate(COMMENT_WORDINGS):
            if "\n" in w and host in ("eol", "inline"):
                continue
            if w.startswith("#") and host == "inline":
                continue
            text = tpl.replace("@C@", w)
            if text in seen or has_error(parse_cst(text)):
                continue
            if [x for t, x, _s, _e in leaves(parse_cst(text)) if t == "comment"] != [w]:
                continue  # the lexer does not read it as this one comment
            seen.add(text)
            yield dict(id=f"wording|{host}|w{k}", text=text, template=f"wording-{host}", slot="w", filler=None, wording=k)
    if tier == "thorough-multi":  # not used by the registered checks (see DESIGN.md: unstable known-finding signatures)
        rnd = random.Random(seed)
        bases = [b for b in base_programs("thorough")]
        for _ in range(20000):
            name, fid, toks = rnd.choice(bases)
            ks = rnd.sample(range(len(toks) + 1), k=min(len(toks) + 1, rnd.choice([2, 3])))
            parts = []
            for i, (_k, w) in enumerate(toks):
                parts.append(rnd.choice(FILLERS) if i in ks else (" " if i else ""))
                parts.append(w)
            parts.append(rnd.choice(FILLERS) if len(toks) in ks else "\n")
            text = glue("".join(parts))
            if text in seen:
                continue
            r2 = parse_cst(text)
            if has_error(r2):
                continue
            canon_tokens = code_tokens(leaves(parse_cst(glue(render(toks)))))
            if code_tokens(leaves(r2)) != canon_tokens:
                continue
            seen.add(text)
            fills = {}
            for i in range(len(toks) + 1):
                pass
            yield dict(id=f"{name}|{fid}|multi{ks}", text=text, template=name, slot=tuple(ks), filler="multi",
                       toks=toks, singles=_singles(toks, text))


def gap_context(text: str, pos: int, length: int):
    """(lowest common ancestor type, previous code leaf type, next code leaf type) of the gap
    text[pos:pos+length] (byte offsets) in the CST of text."""
    root = parse_cst(text)
    lv = [l for l in leaves(root) if l[0] != "comment" or not (pos <= l[2] < pos + length)]
    prev = None
    nxt = None
    for l in lv:
        if l[3] <= pos:
            prev = l
        elif l[2] >= pos + length and nxt is None:
            nxt = l
    def node_at(l):
        if l is None:
            return None
        return root.descendant_for_byte_range(l[2], l[3])
    a, b = node_at(prev), node_at(nxt)
    lca = "source_code"
    if a is not None and b is not None:
        anc = set()
        n = a
        while n is not None:
            anc.add(n.id)
            n = n.parent
        n = b
        while n is not None and n.id not in anc:
            n = n.parent
        if n is not None:
            lca = n.type
    return lca, (prev[0] if prev else "<bof>"), (nxt[0] if nxt else "<eof>")


def filler_class(f):
    if f is None:
        return "canon"
    kind = ("mixed" if "#" in f and "/*" in f else "line" if "#" in f else "doc" if "/**" in f else "block-multi" if ("/*" in f and "\n" in f.split("/*")[1].split("*/")[0])
            else "block" if "/*" in f else None)
    if kind:
        return f"comment-{kind}-" + ("own" if f.startswith("\n") else "touching" if f.startswith("/") else "inline")
    return ("blank2" if f.count("\n") >= 3 else "blank" if f.count("\n") == 2 else "newline-indent" if f.startswith("\n") and len(f) > 1
            else "newline" if f == "\n" else "tab" if "\t" in f else "spaces" if len(f) > 1 else "space" if f == " " else "none")


_EXPR_START = {"identifier", "integer_expression", "float_expression", "path_fragment", "(", "[", "{", "''", '"', "let", "if",
               "with", "assert", "rec", "-", "!", "variable_expression", "spath_expression", "hpath_expression", "path_expression"}
_EXPR_END = {"identifier", "integer_expression", "float_expression", "path_fragment", ")", "]", "}", "''", '"',
             "variable_expression", "spath_expression", "hpath_expression", "path_expression", "ellipses"}


def drift_class(f):
    """What kind of block comment drifts: the known defect is a body that starts on the opener's line."""
    body = f.split("/*", 1)[1].split("*/")[0] if "/*" in f else ""
    body = body[1:] if body.startswith("*") and len(body) > 1 else body
    first = "text-on-the-opening-line" if body.split("\n")[0].strip() else "body-on-its-own-lines"
    return first + ("|tab-in-body" if "\t" in body else "")


def signature(prog, symptom: str) -> str:
    if prog.get("distant"):
        def one(c):
            lca, prev, nxt = c if c else ("?", "?", "?")
            return f"in={lca}|after={'expr' if prev in _EXPR_END else prev}|before={'expr' if nxt in _EXPR_START else nxt}"
        return f"{symptom}|own-line comments in two gaps: {one(prog.get('ctx'))} and {one(prog.get('ctx2'))}"
    if prog.get("pair"):
        lca, prev, nxt = prog["ctx"] if prog.get("ctx") else ("?", "?", "?")
        prev = "expr" if prev in _EXPR_END else prev
        return f"{symptom}|in={lca}|after={prev}|two adjacent gaps: {prog['pair'][0]} then {prog['pair'][1]}"
    if prog.get("wording") is not None:
        if symptom.endswith(":comment-body-drifts"):
            w = COMMENT_WORDINGS[prog['wording']]
            return f"{symptom}|{filler_class(chr(10) + w + chr(10))}|{drift_class(w)}"
        return f"{symptom}|wording={COMMENT_WORDINGS[prog['wording']]!r}|host={prog['template'].split('-', 1)[1]}"
    if prog.get("ctx"):
        lca, prev, nxt = prog["ctx"]
        prev = "expr" if prev in _EXPR_END else prev
        nxt = "expr" if nxt in _EXPR_START else nxt
        if symptom.endswith(":comment-body-drifts"):
            return f"{symptom}|{filler_class(prog.get('filler'))}|{drift_class(prog.get('filler') or '')}"
        return f"{symptom}|in={lca}|after={prev}|before={nxt}|{filler_class(prog.get('filler'))}"
    if prog.get("lead_of"):
        return f"{symptom.split(':')[0]}|only when the file starts with whitespace (gap offsets shift)"
    fill = prog["id"].split("|")[1]
    if "=" in fill:
        return f"{symptom}|canon|fill={fill.split('=', 1)[1]}"
    return f"{symptom}|canon|{prog['template']}"


def signature_old(prog, symptom: str) -> str:
    """Known-finding signature: template + slot + filler class + symptom (one defect, many programs)."""
    f = prog.get("filler")
    if f is None:
        fc = "canon"
    elif f == "multi":
        fc = "multi"
    else:
        fc = ("comment-line" if "#" in f else "comment-block" if "/*" in f else "blank" if f.count("\n") >= 2 else
              "newline" if "\n" in f else "tab" if "\t" in f else "spaces" if f else "none")
        if "#" in f or "/*" in f:
            fc += "-own" if f.startswith("\n") else "-inline"
    slot = prog.get("slot")
    return f"{prog['template']}|{prog['id'].split('|')[1]}|slot={slot}|{fc}|{symptom}"


# ---------------------------------------------------------------------------------------------
# fault enumeration (C07, C20)

DELIM_INSERTS = ["{", "}", "(", ")", "[", "]", ";", "=", '"', "''", "${", ":", ",", ".", "in", "then"]
WRAPS = [("", ""), ("\n  ", ""), ("", "  \n\n"), (" \t\n", "\n \n")]


def seed_programs(tier):
    seen = set()
    for name, fid, toks in base_programs("quick"):
        if fid != "atoms" and not (tier == "thorough" and fid.startswith("h0=")):
            continue
        text = glue(render(toks))
        if text in seen or has_error(parse_cst(text)):
            continue
        seen.add(text)
        yield name, toks, text


def faults(tier):
    """Yield damaged texts: every token deleted / duplicated, every delimiter inserted at every
    token boundary, truncation at every byte, each with surrounding whitespace variants."""
    seen = set()
    for name, toks, text in seed_programs(tier):
        words = [t[1] for t in toks]
        cands = []
        for i in range(len(words)):
            cands.append(("del", " ".join(words[:i] + words[i + 1:])))
            cands.append(("dup", " ".join(words[:i + 1] + words[i:])))
        for i in range(len(words) + 1):
            for d in (DELIM_INSERTS if tier == "thorough" else DELIM_INSERTS[:10]):
                cands.append(("ins", " ".join(words[:i] + [d] + words[i:])))
        b = text.rstrip("\n").encode("utf-8")
        for k in range(1, len(b)):
            try:
                cands.append(("trunc", b[:k].decode("utf-8")))
            except UnicodeDecodeError:
                pass
        for kind, t in cands:
            t = glue(t)
            for pre, post in (WRAPS if kind != "trunc" else WRAPS[:2]):
                full = pre + t + post
                if full in seen:
                    continue
                seen.add(full)
                yield dict(id=f"{name}|{kind}", text=full, kind=kind, template=name)
    for t in ["", " ", "\n", "hello world", "}{", "=", "''", '"', "/* unterminated", "# only a comment\n", "\x00", "é", "{ a = 1; } }",
              "1 2", "a b c", "let", "in", ";;", "${", "\\", "﻿{ }", "{ a = 1; }\x0c"]:
        if t not in seen:
            seen.add(t)
            yield dict(id="misc", text=t, kind="misc", template="misc")
