"""Bounded stand-in for C10: identifier resolution follows Nix lexical scoping or fails explicitly.

Documents are generated from a description of nested scope frames, outermost first; the reference
`x = NAME;` sits in the innermost attribute set.  The expected value follows Nix's rule computed
on the *description* (independent of nix_manipulator): innermost lexical binder (let, rec set,
applied-lambda formal) wins; a `with` environment is consulted only if no lexical binder exists
(innermost with first); inherit / inherit (src) are followed; unbound names and cycles must raise
ResolutionError.  Also: histories creating/resolving/discarding many documents must not leak
contexts between documents (registry keyed by id())."""
from __future__ import annotations

import gc
import itertools
import multiprocessing as mp
import time

from bounded import nixgen as G

FRAMES = ["let", "rec", "with", "plain", "lambda"]


def build(frames, binds):
    """frames: list of frame kinds outermost first; binds[i] = marker or None: whether NAME is bound
    in frame i.  Returns (text, expected marker | None | 'SKIP')."""
    head = []
    tail = []
    sources = []
    for i, (kind, b) in enumerate(zip(frames, binds)):
        if isinstance(b, tuple):
            # the name is brought into this frame by `inherit (sI) n;` from a set bound in an extra outermost let
            sources.append(f"s{i} = {{ n = {b[1]}; }};")
            bind = f"inherit (s{i}) n; "
            b = b[1]
        else:
            bind = f"n = {b}; " if b is not None else ""
        other = f"o{i} = 0; "
        if kind == "let":
            head.append(f"let {bind}{other}in")
        elif kind == "with":
            head.append(f"with {{ {bind}{other}}};")
        elif kind == "lambda":
            # directly applied function: ({ n ? D, o }: BODY) { n = V; o = 0; }
            if b is not None:
                head.append("({ n, o }:")
                tail.insert(0, f") {{ n = {b}; o = 0; }}")
            else:
                head.append("({ o }:")
                tail.insert(0, ") { o = 0; }")
        elif kind in ("rec", "plain"):
            pre = "rec " if kind == "rec" else ""
            head.append(f"{pre}{{ {bind}{other}inner =")
            tail.insert(0, "; }")
    text = " ".join(head) + " { x = n; } " + " ".join(tail) + "\n"
    if sources:
        text = "let " + " ".join(sources) + " in " + text
    binds = [b[1] if isinstance(b, tuple) else b for b in binds]
    # expected by Nix scoping
    lexical = [(i, b) for i, (k, b) in enumerate(zip(frames, binds)) if b is not None and k in ("let", "rec", "lambda")]
    withs = [(i, b) for i, (k, b) in enumerate(zip(frames, binds)) if b is not None and k == "with"]
    if lexical:
        expected = lexical[-1][1]
    elif withs:
        expected = withs[-1][1]
    else:
        expected = None
    return text, expected


def navigate(src, frames):
    """Reach the innermost set through the mapping API and return the value of x."""
    cur = src
    for kind in frames:
        if kind in ("rec", "plain"):
            cur = cur["inner"]
    return cur["x"]


def eval_case(item):
    from nix_manipulator import parse
    from nix_manipulator.exceptions import ResolutionError
    from nix_manipulator.expressions.identifier import Identifier

    frames, binds = item
    text, expected = build(frames, binds)
    if G.parse_cst(text).has_error:
        return "harness:does-not-parse:" + text
    src = parse(text)
    try:
        ref = navigate(src, frames)
    except (ValueError, KeyError, TypeError) as e:
        return "SKIP"  # the shape is not navigable through the document API: outside the quantifier
    except ResolutionError:
        return None if expected is None else "navigation-raises-ResolutionError"
    if not isinstance(ref, Identifier):
        return "SKIP"
    try:
        val = ref.value
        got = val.rebuild().strip() if hasattr(val, "rebuild") else repr(val)
    except ResolutionError:
        got = None
    except RecursionError:
        return "recursion-error"
    except Exception as e:
        return f"internal-error:{type(e).__name__}"
    if expected is None:
        return None if got is None else f"unbound-name-resolved-to:{got}"
    if got is None:
        return "bound-name-not-resolved"
    if got != expected:
        kind_of = {f'"M{i}"': k for i, k in enumerate(frames)}
        if kind_of.get(got) == "with" and kind_of.get(expected) in ("let", "rec", "lambda"):
            return "with-environment-shadows-an-enclosing-lexical-binder"
        return "resolved-to-the-wrong-binding"
    return None


def cases(tier):
    depth = 3 if tier == "quick" else 4
    for d in range(1, depth + 1):
        for frames in itertools.product(FRAMES, repeat=d):
            if frames.count("lambda") > 1:
                continue
            for mask in itertools.product([False, True], repeat=d):
                binds = [f'"M{i}"' if m else None for i, m in enumerate(mask)]
                yield (list(frames), binds)
            # the same with `inherit (src) n;` as the binding form in let / rec frames (at least one such frame)
            if d <= 3:
                for mask in itertools.product([0, 1, 2], repeat=d):
                    if 2 not in mask or any(m == 2 and frames[i] not in ("let", "rec") for i, m in enumerate(mask)):
                        continue
                    binds = [None if m == 0 else f'"M{i}"' if m == 1 else ("inh", f'"M{i}"') for i, m in enumerate(mask)]
                    yield (list(frames), binds)


EXTRA = [
    ("inherit-from-let", 'let n = "D"; in { inherit n; x = n; }\n', "x", '"D"'),
    ("inherit-src", 'let s = { n = "D"; }; in { inherit (s) n; x = n; }\n', "x", None),  # plain set: n not in scope of x
    ("inherit-src-rec", 'let s = { n = "D"; }; in rec { inherit (s) n; x = n; }\n', "x", '"D"'),
    ("chain", 'let a = "D"; b = a; c = b; in { x = c; }\n', "x", '"D"'),
    ("cycle", "let a = b; b = a; in { x = a; }\n", "x", "CYCLE"),
    ("self-cycle", "rec { x = x; }\n", "x", "CYCLE"),
    ("unbound", "{ x = nope; }\n", "x", None),
    # let layers whose binding lists are element-wise equal (== is not identity)
    ("twin-layers-free-name", "let x = 1; in let a = x; in let x = 2; in let a = x; in { foo = a; }\n", "foo", "2"),
    ("twin-layers-same-expr", 'let v = "1"; w = v; in let v = "1"; w = v; in { foo = w; }\n', "foo", '"1"'),
    ("twin-layer-on-nested-set", "let x = 1; in let a = x; in { n = let x = 2; in let a = x; in { foo = a; }; }\n", "n.foo", "2"),
    # `inherit n;` inside a rec set takes n from the enclosing scope, not from the rec set itself
    ("inherit-into-rec-from-let", 'let n = "D"; in rec { inherit n; x = n; }\n', "x", '"D"'),
    ("inherit-into-rec-lookup", 'let n = "D"; in rec { inherit n; }\n', "n", '"D"'),
    # the set the mapping API works on is reached through a name: the innermost enclosing let that binds it, also across a lambda
    ("target-name-rebound-under-lambda", 'let args = { x = "OUTER"; }; in { pkgs }: let args = { x = "D"; }; in pkgs.mk args\n', "x", '"D"'),
    ("formal-default", '({ n ? "D" }: { x = n; }) { }\n', "x", '"D"'),
    ("formal-arg-over-default", '({ n ? "DEF" }: { x = n; }) { n = "D"; }\n', "x", '"D"'),
]


# the same lookup written as one dotted key and step by step must resolve alike
DOTTED = [
    ("dotted-key-through-rec", 'let n = 1; in { a = rec { n = 2; x = n; }; }\n', "a.x"),
    ("dotted-key-through-plain", 'let n = 1; in { a = { n = 2; x = n; }; }\n', "a.x"),
    ("dotted-key-through-let-value", 'let n = 1; in { a = let n = 3; in { x = n; }; }\n', "a.x"),
]


def eval_dotted(item):
    from nix_manipulator import parse
    from nix_manipulator.expressions.identifier import Identifier

    name, text, key = item

    def look(src, keys):
        try:
            ref = src
            for k in keys:
                ref = ref[k]
            return ref.value.rebuild().strip() if isinstance(ref, Identifier) else ref.rebuild().strip()
        except Exception as e:
            return f"exc:{type(e).__name__}"

    a = look(parse(text), [key])
    b = look(parse(text), key.split("."))
    return None if a == b else f"dotted-key-resolves-to:{a}-stepwise-to:{b}"


def eval_extra(item):
    from nix_manipulator import parse
    from nix_manipulator.exceptions import ResolutionError
    from nix_manipulator.expressions.identifier import Identifier

    name, text, key, expected = item
    src = parse(text)
    t0 = time.time()
    try:
        ref = src
        for k in key.split("."):
            ref = ref[k]
        got = ref.value.rebuild().strip() if isinstance(ref, Identifier) else ref.rebuild().strip()
    except ResolutionError:
        got = None
    except (KeyError, ValueError):
        return None
    except RecursionError:
        return "recursion-error-instead-of-ResolutionError"
    except Exception as e:
        return f"internal-error:{type(e).__name__}"
    if time.time() - t0 > 5:
        return "resolution-too-slow"
    if expected in (None, "CYCLE"):
        return None if got is None else f"should-raise-ResolutionError-but-got:{got}"
    if got != expected:
        return f"resolved-to:{got}"
    return None


def history_check(n):
    """Create / resolve / discard documents in one process; a fresh document must never see a context
    stored for a dead object whose id() it happens to reuse."""
    from nix_manipulator import parse
    from nix_manipulator.exceptions import ResolutionError
    from nix_manipulator.resolution import _CONTEXTS

    bad = 0
    for i in range(n):
        a = parse(f'let n = "A{i}"; in {{ x = n; }}\n')
        assert a["x"].value.rebuild() == f'"A{i}"'
        del a
        if i % 3 == 0:
            gc.collect()
        b = parse("{ x = n; }\n")
        ident = b.expr.values[0].value
        try:
            v = ident.value  # no context was attached to this identifier
            bad += 1
        except ResolutionError:
            pass
        try:
            b["x"].value
            bad += 1
        except ResolutionError:
            pass
    gc.collect()
    return bad, len(_CONTEXTS)


def _chunk(items):
    out = []
    for it in items:
        try:
            sym = eval_case(it)
        except Exception as e:
            sym = f"harness:{type(e).__name__}:{e}"
        if sym:
            out.append((it, sym))
    return len(items), out


def _unused():
    pass


def shape_sig(frames, binds):
    return " > ".join(f"{k}{'' if not b else '*inherit' if isinstance(b, (tuple, list)) else '*'}" for k, b in zip(frames, binds))


def run(tier, seed):
    t0 = time.time()
    items = list(cases(tier))
    chunks = [items[i::32] for i in range(32)]
    with mp.get_context("fork").Pool(16) as pool:
        res = pool.map(_chunk, [c for c in chunks if c], chunksize=1)
        extra = pool.map(eval_extra, EXTRA, chunksize=1)
        dotted = pool.map(eval_dotted, DOTTED, chunksize=1)
        hist = pool.apply(history_check, (500 if tier == "quick" else 3000,))
    n = sum(r[0] for r in res) + len(EXTRA)
    vio = {}
    skipped = 0
    for _, bad in res:
        for (frames, binds), sym in bad:
            if sym == "SKIP":
                skipped += 1
                continue
            if sym.startswith("harness"):
                raise RuntimeError(sym)
            sig = f"{sym}|{shape_sig(frames, binds)}"
            if sym.startswith("with-environment-shadows"):
                sig = sym  # one defect: precedence of `with` (see known_findings.json)
                if sig in vio:
                    continue
            text, expected = build(frames, binds)
            vio[sig] = dict(check="scoping", signature=sig, what=f"C10 {sym}: nesting {shape_sig(frames, binds)} (expected {expected})",
                            has_input=True, inputs={"frames": frames, "binds": binds, "text": text},
                            failing_input={"inputs": {"text": text}, "observed": sym, "origin": "bounded enumeration"})
    for it, sym in zip(EXTRA, extra):
        if sym:
            sig = f"{sym}|{it[0]}"
            vio[sig] = dict(check="scoping-extra", signature=sig, what=f"C10 {sym}: {it[1]!r}", has_input=True, inputs={"name": it[0], "text": it[1]},
                            failing_input={"inputs": {"text": it[1]}, "observed": sym, "origin": "bounded enumeration"})
    for it, sym in zip(DOTTED, dotted):
        if sym:
            sig = f"{sym}|{it[0]}"
            vio[sig] = dict(check="scoping-dotted", signature=sig, what=f"C10 {sym}: {it[1]!r} key {it[2]}", has_input=True, inputs={"dotted": it[0], "text": it[1]},
                            failing_input={"inputs": {"text": it[1], "key": it[2]}, "observed": sym, "origin": "bounded enumeration"})
    if hist[0]:
        vio["history"] = dict(check="history", signature="context-leak-between-documents", what=f"C10 {hist[0]} resolutions used a context of another document",
                              has_input=False, inputs={})
    from bounded import livefresh
    from bounded.edits import merge

    lf = livefresh.run("C10", tier, seed)
    base = _base(n, skipped, tier, items, vio, t0, hist)
    # which set the CLI edits when the target is reached through a name is decided by the same scoping rules: the constructed
    # reference documents of C11 (defining binding known by construction) belong here as well
    from bounded import b_c11

    refs = b_c11.run_single(tier, seed)
    for v in refs["violations"]:
        v["what"] = v["what"].replace("C11", "C10", 1)
    out = merge(base, lf, refs)
    out["not_navigable"] = skipped
    out["registry_size_after_history"] = hist[1]
    return out


def _base(n, skipped, tier, items, vio, t0, hist):
    return dict(evaluations=n + 1, distinct_nontrivial=n - skipped, not_navigable=skipped,
                rule=f"all nestings up to depth {3 if tier == 'quick' else 4} of let / rec set / with / plain set / directly applied lambda, the "
                     "name bound at every subset of levels (distinct marker per level); reference in the innermost set; expected binder by Nix "
                     "scoping computed on the description; plus inherit / chains / cycles / formals cases and a create-resolve-discard history",
                samples=[dict(text=build(*items[i])[0]) for i in (0, len(items) // 2, -1)],
                exhaustive=True, violations=list(vio.values()), seconds=time.time() - t0, registry_size_after_history=hist[1])


def replay(v):
    i = v["inputs"]
    if "case" in i:
        from bounded import b_c11

        return b_c11.replay(v)
    if "ops" in i:
        from bounded import livefresh

        return livefresh.replay("C10", v)
    if "dotted" in i:
        sym = [eval_dotted(e) for e in DOTTED if e[0] == i["dotted"]][0]
    elif "frames" in i:
        sym = eval_case((i["frames"], i["binds"]))
    else:
        sym = [eval_extra(e) for e in EXTRA if e[0] == i.get("name")][0]
    print(i.get("text"), "->", sym)
    if sym:
        print("VIOLATION property=C10 replay=<given>")
        return 1
    return 0
