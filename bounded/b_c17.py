"""Bounded stand-in for C17: imports resolve relative to the importing file, whatever the working
directory and the spelling of the entry path."""
from __future__ import annotations

import itertools
import multiprocessing as mp
import os
import tempfile
import time

# layout: file -> content; values planted so that every file answers differently
def layout(root):
    files = {
        "entry.nix": '{ sib = import ./sib.nix; child = import ./sub/child.nix; up = import ./sub/up.nix; chain = import ./sub/chain1.nix;'
                     ' abs = import %s/abs.nix; paren = import (./sib.nix); v = "entry"; bad = import "str"; angle = import <nixpkgs>;'
                     ' missing = import ./nope.nix; dot = import ./sub/../sib.nix;'
                     # relative path literals without a leading ./ (a Nix path literal only needs a slash)
                     # other spellings of the application: line break, tab, no blank, a comment between keyword and path
                     ' nl = import\n    ./sib.nix; tab = import\t./sib.nix; tight = import(./sib.nix); cmt = import /* c */ ./sib.nix; cmt2 = import/* c */./sub/child.nix;'
                     ' bare = import sub/child.nix; barechain = import sub/bare1.nix; baregone = import sub/nope.nix; }\n' % root,
        "sib.nix": '{ v = "sib"; }\n',
        "abs.nix": '{ v = "abs"; }\n',
        "sub/child.nix": '{ v = "child"; sibling = import ./child2.nix; }\n',
        "sub/child2.nix": '{ v = "child2"; }\n',
        "sub/up.nix": '{ v = "up"; parent = import ../sib.nix; }\n',
        "sub/chain1.nix": '{ next = import ./deep/chain2.nix; v = "chain1"; }\n',
        "sub/deep/chain2.nix": '{ next = import ../../other/chain3.nix; v = "chain2"; }\n',
        "other/chain3.nix": '{ next = import ./chain4.nix; v = "chain3"; }\n',
        "other/chain4.nix": '{ v = "chain4"; }\n',
        "sub/bare1.nix": '{ v = "bare1"; next = import deep/bare2.nix; }\n',
        "sub/deep/bare2.nix": '{ v = "bare2"; }\n',
        "sub/sub/child.nix": '{ v = "DECOY sub/sub/child"; }\n',
        "sub/deep/sub/child.nix": '{ v = "DECOY"; }\n',
        "unrelated/sub/child.nix": '{ v = "DECOY unrelated"; }\n',
        "unrelated/sub/nope.nix": '{ v = "DECOY for a missing file"; }\n',
        "deep/bare2.nix": '{ v = "DECOY root/deep/bare2"; }\n',
        "unrelated/deep/bare2.nix": '{ v = "DECOY"; }\n',
        # decoys with the same names relative to other directories (a cwd-relative lookup would hit these)
        "sub/sib.nix": '{ v = "DECOY sub/sib"; }\n',
        "other/sib.nix": '{ v = "DECOY other/sib"; }\n',
        "sub/deep/sib.nix": '{ v = "DECOY deep/sib"; }\n',
        "child2.nix": '{ v = "DECOY root/child2"; }\n',
        "sub/deep/chain4.nix": '{ v = "DECOY"; }\n',
        "chain4.nix": '{ v = "DECOY"; }\n',
    }
    return files


LOOKUPS = [
    (["sib", "v"], '"sib"'), (["child", "v"], '"child"'), (["child", "sibling", "v"], '"child2"'), (["up", "parent", "v"], '"sib"'),
    (["chain", "next", "next", "next", "v"], '"chain4"'), (["chain", "next", "v"], '"chain2"'), (["abs", "v"], '"abs"'),
    (["paren", "v"], '"sib"'), (["dot", "v"], '"sib"'),
    (["nl", "v"], '"sib"'), (["tab", "v"], '"sib"'), (["tight", "v"], '"sib"'), (["cmt", "v"], '"sib"'), (["cmt2", "v"], '"child"'),
    (["bare", "v"], '"child"'), (["barechain", "next", "v"], '"bare2"'), (["baregone", "v"], OSError),
    (["bad", "v"], TypeError), (["angle", "v"], ValueError), (["missing", "v"], OSError),
]


def eval_case(item):
    cwd_kind, spelling = item
    from nix_manipulator import parse_file

    with tempfile.TemporaryDirectory() as root:
        root = os.path.realpath(root)
        for rel, content in layout(root).items():
            p = os.path.join(root, rel)
            os.makedirs(os.path.dirname(p), exist_ok=True)
            with open(p, "w") as fh:
                fh.write(content)
        unrelated = os.path.join(root, "unrelated")
        os.makedirs(unrelated, exist_ok=True)
        cwd = {"root": root, "sub": os.path.join(root, "sub"), "unrelated": unrelated, "deep": os.path.join(root, "sub", "deep")}[cwd_kind]
        old = os.getcwd()
        os.chdir(cwd)
        try:
            entry_abs = os.path.join(root, "entry.nix")
            entry = entry_abs if spelling == "absolute" else os.path.relpath(entry_abs, cwd)
            if spelling == "dotted":
                entry = os.path.join(os.path.relpath(root, cwd), ".", "sub", "..", "entry.nix")
            bad = []
            for keys, expected in LOOKUPS:
                try:
                    cur = parse_file(entry)
                    for k in keys:
                        cur = cur[k]
                    got = cur.rebuild().strip() if hasattr(cur, "rebuild") else repr(cur)
                except Exception as e:
                    got = e
                if isinstance(expected, type):
                    if not isinstance(got, expected):
                        bad.append(f"{'.'.join(keys)}:expected-{expected.__name__}-got-{type(got).__name__ if isinstance(got, Exception) else got}")
                elif got != expected:
                    bad.append(f"{'.'.join(keys)}:got-{type(got).__name__ if isinstance(got, Exception) else got}")
            return bad
        finally:
            os.chdir(old)


def chdir_case(item):
    """parse_file under one working directory, follow the imports under another one (imports are followed lazily)."""
    cwd1, cwd2, spelling = item
    from nix_manipulator import parse_file

    with tempfile.TemporaryDirectory() as root:
        root = os.path.realpath(root)
        for rel, content in layout(root).items():
            p = os.path.join(root, rel)
            os.makedirs(os.path.dirname(p), exist_ok=True)
            with open(p, "w") as fh:
                fh.write(content)
        os.makedirs(os.path.join(root, "unrelated"), exist_ok=True)
        dirs = {"root": root, "sub": os.path.join(root, "sub"), "unrelated": os.path.join(root, "unrelated"), "deep": os.path.join(root, "sub", "deep"),
                "parent": os.path.dirname(root)}
        old = os.getcwd()
        bad = []
        try:
            for keys, expected in LOOKUPS:
                os.chdir(dirs[cwd1])
                entry_abs = os.path.join(root, "entry.nix")
                entry = entry_abs if spelling == "absolute" else os.path.relpath(entry_abs, dirs[cwd1])
                try:
                    cur = parse_file(entry)
                    os.chdir(dirs[cwd2])
                    if spelling != "absolute":
                        # a relatively spelled entry is only meaningful under the directory it was given in
                        os.chdir(dirs[cwd1])
                    for k in keys:
                        cur = cur[k]
                    got = cur.rebuild().strip() if hasattr(cur, "rebuild") else repr(cur)
                except Exception as e:
                    got = e
                if isinstance(expected, type):
                    if not isinstance(got, expected):
                        bad.append(f"{'.'.join(keys)}:expected-{expected.__name__}-got-{type(got).__name__ if isinstance(got, Exception) else got}")
                elif got != expected:
                    bad.append(f"{'.'.join(keys)}:got-{type(got).__name__ if isinstance(got, Exception) else got}")
            return bad
        finally:
            os.chdir(old)


def symlink_case(item):
    """A directory reached through a symbolic link: `etc/nixos -> real/hosts/laptop`.  Whichever file a `../` hop reads (the
    property does not say whether `..` is taken before or after the link is followed, so either is accepted), the imports written
    in THAT file are located next to it: the pair (tag of the file read, value read through its `./` import) must come from one
    directory, and a missing sibling is an OS error, never the file of the same name in the other directory."""
    cwd_kind, spelling, variant = item
    from nix_manipulator import parse_file

    with tempfile.TemporaryDirectory() as root:
        root = os.path.realpath(root)
        files = {
            "real/hosts/laptop/configuration.nix": "{\n  common = import ../common/base.nix;\n}\n",
            "real/hosts/common/base.nix": '{\n  tag = "real";\n  net = import ./net.nix;\n}\n',
            "real/hosts/common/net.nix": "{\n  port = 22;\n}\n",
            "etc/common/net.nix": "{\n  port = 99;\n}\n",
            "elsewhere/x": "",
        }
        if variant == "both-bases":
            files["etc/common/base.nix"] = '{\n  tag = "lexical";\n  net = import ./net.nix;\n}\n'
        if variant == "real-sibling-missing":
            del files["real/hosts/common/net.nix"]
        for rel, content in files.items():
            p = os.path.join(root, rel)
            os.makedirs(os.path.dirname(p), exist_ok=True)
            with open(p, "w") as fh:
                fh.write(content)
        os.symlink(os.path.join(root, "real", "hosts", "laptop"), os.path.join(root, "etc", "nixos"), target_is_directory=True)
        dirs = {"root": root, "link": os.path.join(root, "etc", "nixos"), "elsewhere": os.path.join(root, "elsewhere")}
        old = os.getcwd()
        os.chdir(dirs[cwd_kind])
        try:
            entry_abs = os.path.join(root, "etc", "nixos", "configuration.nix")
            entry = entry_abs if spelling == "absolute" else os.path.relpath(entry_abs, os.path.join(root, "etc", "nixos") if cwd_kind == "link" else dirs[cwd_kind])
            try:
                base = parse_file(entry)["common"]
                tag = base["tag"].rebuild().strip().strip('"')
            except OSError:
                return ["first-hop:got-OSError"]
            except Exception as e:
                return [f"first-hop:got-{type(e).__name__}"]
            try:
                port = int(base["net"]["port"].rebuild().strip())
            except OSError:
                port = "OSError"
            except Exception as e:
                port = type(e).__name__
            expect = {"real": "OSError" if variant == "real-sibling-missing" else 22, "lexical": 99}.get(tag, "?")
            if port != expect:
                return [f"symlinked-directory:file-read-is-{tag}-but-its-sibling-import-gives-{port}"]
            return []
        finally:
            os.chdir(old)


def bigfile_case(item):
    """The importing file is large (tens of KiB, still below the line / column limits of the installed binding): where imports are
    located must not depend on the size of the file that contains them."""
    cwd_kind, spelling, kib = item
    from nix_manipulator import parse_file

    with tempfile.TemporaryDirectory() as root:
        root = os.path.realpath(root)
        pad = "".join('  pad%03d = "%s";\n' % (k, "x" * 200) for k in range(max(1, kib * 1024 // 216)))
        assert pad.count("\n") < 230
        files = {
            "main/big.nix": "{\n" + pad + "  lib = import ../lib/default.nix;\n  gone = import ../lib/nope.nix;\n}\n",
            "lib/default.nix": '{\n  version = "real";\n  deep = import ./sub/leaf.nix;\n}\n',
            "lib/sub/leaf.nix": "{\n  v = 1;\n}\n",
            # decoys at the same relative places seen from other directories
            "other/lib/default.nix": '{\n  version = "decoy";\n  deep = import ./sub/leaf.nix;\n}\n',
            "other/lib/sub/leaf.nix": "{\n  v = -1;\n}\n",
            "other/lib/nope.nix": '{\n  version = "decoy for a missing file";\n}\n',
            "other/work/x": "",
        }
        for rel, content in files.items():
            p = os.path.join(root, rel)
            os.makedirs(os.path.dirname(p), exist_ok=True)
            with open(p, "w") as fh:
                fh.write(content)
        dirs = {"root": root, "main": os.path.join(root, "main"), "work": os.path.join(root, "other", "work")}
        old = os.getcwd()
        os.chdir(dirs[cwd_kind])
        bad = []
        try:
            entry_abs = os.path.join(root, "main", "big.nix")
            entry = entry_abs if spelling == "absolute" else os.path.relpath(entry_abs, dirs[cwd_kind])
            for keys, expected in ((["lib", "version"], '"real"'), (["lib", "deep", "v"], "1"), (["gone", "version"], OSError)):
                try:
                    cur = parse_file(entry)
                    for k in keys:
                        cur = cur[k]
                    got = cur.rebuild().strip()
                except Exception as e:
                    got = e
                if isinstance(expected, type):
                    if not isinstance(got, expected):
                        bad.append(f"big-file:{'.'.join(keys)}:expected-{expected.__name__}-got-{type(got).__name__ if isinstance(got, Exception) else got}")
                elif got != expected:
                    bad.append(f"big-file:{'.'.join(keys)}:got-{type(got).__name__ if isinstance(got, Exception) else got}")
            return bad
        finally:
            os.chdir(old)


def history_case(_=None):
    """Two directory trees with the same layout, same file sizes and same mtimes (like the Nix store), visited one
    after the other in ONE process with relatively spelled entry paths: the second visit must read the second tree."""
    from nix_manipulator import parse_file

    bad = []
    with tempfile.TemporaryDirectory() as base:
        base = os.path.realpath(base)
        roots = {}
        for tag in ("A", "B"):
            root = os.path.join(base, tag)
            for rel, content in layout(os.path.join(base, "X")).items():
                content = content.replace(os.path.join(base, "X"), root).replace('"', f'"{tag}', 1) if False else content.replace(os.path.join(base, "X"), root)
                content = content.replace('v = "', f'v = "{tag}')
                p = os.path.join(root, rel)
                os.makedirs(os.path.dirname(p), exist_ok=True)
                with open(p, "w") as fh:
                    fh.write(content)
                os.utime(p, ns=(1_000_000_000, 1_000_000_000))
            roots[tag] = root
        old = os.getcwd()
        try:
            for tag in ("A", "B", "A"):
                os.chdir(roots[tag])
                for keys, expected in LOOKUPS:
                    if isinstance(expected, type) or keys[0] == "abs":
                        continue
                    try:
                        cur = parse_file("entry.nix")
                        for k in keys:
                            cur = cur[k]
                        got = cur.rebuild().strip()
                    except Exception as e:
                        got = f"{type(e).__name__}"
                    exp = expected[0] + tag + expected[1:]
                    if got != exp:
                        bad.append(f"history:{'.'.join(keys)}:in-tree-{tag}-got-{got}")
        finally:
            os.chdir(old)
    return bad


def run(tier, seed):
    t0 = time.time()
    items = list(itertools.product(["root", "sub", "unrelated", "deep"], ["absolute", "relative", "dotted"]))
    with mp.get_context("fork").Pool(12) as pool:
        res = pool.map(eval_case, items, chunksize=1)
        hist = pool.apply(history_case)
        citems = [(a, b, sp) for a in ("root", "parent", "sub", "unrelated") for b in ("root", "unrelated", "deep", "parent") if a != b
                  for sp in ("absolute",)]
        cres = pool.map(chdir_case, citems, chunksize=1)
        sitems = [(c, sp, v) for c in ("root", "link", "elsewhere") for sp in ("absolute", "relative") for v in ("plain", "both-bases", "real-sibling-missing")]
        sres = pool.map(symlink_case, sitems, chunksize=1)
        bitems = [(c, sp, kib) for c in ("root", "main", "work") for sp in ("absolute", "relative") for kib in (4, 20, 45)]
        bres = pool.map(bigfile_case, bitems, chunksize=1)
    vio = []
    for it, bad in zip(bitems, bres):
        for b in bad:
            vio.append(dict(check="imports-bigfile", signature=f"{b}|{it[2]}KiB|cwd={it[0]}|entry={it[1]}", what=f"C17 {b} (importing file of about {it[2]} KiB; {it})",
                            has_input=True, inputs={"bigfile": list(it)},
                            failing_input={"inputs": {"cwd": it[0], "spelling": it[1], "size_kib": it[2]}, "observed": b, "origin": "generated layout"}))
    for it, bad in zip(sitems, sres):
        for b in bad:
            vio.append(dict(check="imports-symlink", signature=f"{b}|{it[2]}|cwd={it[0]}|entry={it[1]}", what=f"C17 {b} (entry etc/nixos/configuration.nix, etc/nixos a link; {it})",
                            has_input=True, inputs={"symlink": list(it)},
                            failing_input={"inputs": {"cwd": it[0], "spelling": it[1], "variant": it[2]}, "observed": b, "origin": "generated layout"}))
    for it, bad in zip(citems, cres):
        for b in bad:
            sig = f"{b}|parsed-under={it[0]}|looked-up-under={it[1]}"
            vio.append(dict(check="imports-chdir", signature=sig, what=f"C17 lookup {b}: entry parsed (absolute path) with cwd={it[0]}, imports followed with cwd={it[1]}",
                            has_input=True, inputs={"chdir": list(it)},
                            failing_input={"inputs": {"cwd_at_parse": it[0], "cwd_at_lookup": it[1], "lookup": b}, "observed": b, "origin": "generated layout"}))
    for b in hist:
        vio.append(dict(check="imports-history", signature=b, what=f"C17 {b}: a second tree of the same layout visited later in the same process", has_input=True,
                        inputs={"history": True}, failing_input={"inputs": {"scenario": "two same-layout trees, chdir between, relative entry"}, "observed": b, "origin": "generated layout"}))
    for it, bad in zip(items, res):
        for b in bad:
            sig = f"{b}|cwd={it[0]}|entry={it[1]}"
            vio.append(dict(check="imports", signature=sig, what=f"C17 lookup {b} with cwd={it[0]}, entry spelled {it[1]}", has_input=True,
                            inputs={"cwd": it[0], "spelling": it[1]},
                            failing_input={"inputs": {"cwd": it[0], "spelling": it[1], "lookup": b}, "observed": b, "origin": "generated layout"}))
    n = (len(items) + len(citems)) * len(LOOKUPS) + len(sitems) + 3 * len(bitems)
    return dict(evaluations=n, distinct_nontrivial=n,
                rule="a generated directory tree (sibling, child, parent, ./ and ../, absolute, parenthesised, chains of 1-4 hops through three "
                     "directories, decoy files of the same names elsewhere) x 4 working directories x 3 spellings of the entry path x 20 lookups "
                     "incl. the three error cases; plus a directory reached through a symbolic link (3 working directories x 2 spellings x 3 variants) and importing files of 4 / 20 / 45 KiB (3 x 2 x 3)",
                samples=[dict(cwd=i[0], entry=i[1]) for i in items[:3]], exhaustive=True, violations=vio, seconds=time.time() - t0)


def replay(v):
    if v["inputs"].get("chdir"):
        bad = chdir_case(tuple(v["inputs"]["chdir"]))
        print("chdir ->", bad)
        if bad:
            print("VIOLATION property=C17 replay=<given>")
            return 1
        return 0
    if v["inputs"].get("bigfile"):
        bad = bigfile_case(tuple(v["inputs"]["bigfile"]))
        print("bigfile ->", bad)
        if bad:
            print("VIOLATION property=C17 replay=<given>")
            return 1
        return 0
    if v["inputs"].get("symlink"):
        bad = symlink_case(tuple(v["inputs"]["symlink"]))
        print("symlink ->", bad)
        if bad:
            print("VIOLATION property=C17 replay=<given>")
            return 1
        return 0
    if v["inputs"].get("history"):
        bad = history_case()
        print("history ->", bad)
        if bad:
            print("VIOLATION property=C17 replay=<given>")
            return 1
        return 0
    bad = eval_case((v["inputs"]["cwd"], v["inputs"]["spelling"]))
    print(v["inputs"], "->", bad)
    if bad:
        print("VIOLATION property=C17 replay=<given>")
        return 1
    return 0
