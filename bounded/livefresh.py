"""History independence of documents with references (C10, C11): after any sequence of edits,
lookups and mapping writes on ONE live document object, every further operation must behave as it
does on a fresh parse of the text the document currently rebuilds to.  A scope chain remembered from
before a structural change (a binding added, removed or shadowed) would serve a binding that no
longer encloses the reference (C10) or write to a binding that is no longer the defining one (C11).

The oracle is the real code on a fresh parse (whose single-step behaviour is what the other cases of
b_c10 / b_c11 compare with constructed expectations); this stand-in adds the quantifier "for every
history".  Bounded: 6 documents x all sequences of 3 operations over a 13-operation alphabet."""
from __future__ import annotations

import itertools
import multiprocessing as mp
import time

DOCS = {
    "rec-shadows-let": 'let\n  x = 1;\nin\nrec {\n  x = 2;\n  a = x;\n}\n',
    "rec-chain-under-let": 'let\n  c = 5;\nin\nrec {\n  a = b;\n  b = c;\n  c = 1;\n}\n',
    "rec-uses-let": 'let\n  x = 1;\nin\nrec {\n  a = x;\n  k = 0;\n}\n',
    "let-chain": 'let\n  x = 1;\n  b = x;\nin\n{\n  a = b;\n  k = 0;\n}\n',
    "rec-under-two-lets": 'let\n  k = 0;\nin\nlet\n  x = 1;\nin\nrec {\n  a = x;\n}\n',
    "two-lets": 'let\n  x = 1;\nin\nlet\n  c = x;\nin\n{\n  a = c;\n  k = 0;\n}\n',
    "with-env": 'with {\n  x = 1;\n};\nrec {\n  a = x;\n  k = 0;\n}\n',
    # no enclosing scope at all: nothing re-attaches a context, so whatever an expression carries with it is what gets used
    "rec-plain": 'rec {\n  a = x;\n  x = 1;\n}\n',
    "plain": '{\n  a = 0;\n  k = 2;\n}\n',
    "rec-plain-inline": 'rec { a = x; x = 1; }\n',
}
OPS = [("set", "a", "7"), ("set", "a", "8"), ("rm", "x"), ("set", "x", "5"), ("rm", "c"), ("set", "c", "9"), ("rm", "k"), ("set", "b", "3"),
       ("read", "a"), ("mapset", "x", 5), ("mapdel", "x"), ("mapdel", "c"), ("mapset", "c", 1), ("set", "@x", "4"), ("rm", "@x"),
       # an identifier that was resolved in ANOTHER document is assigned over an existing key / to a new key
       ("mapset_foreign", "a"), ("mapset_foreign", "n")]
# longer histories on the scope-less rec set over a small alphabet: re-creating a binding that equals a removed one
OPS4 = [("set", "a", "7"), ("set", "a", "8"), ("rm", "x"), ("set", "x", "7"), ("set", "x", "1"), ("read", "a")]


# C14: the attribute set the document's mapping API works on is reached through a let-bound name; re-binding that
# name through the scope mapping must be seen by every later lookup / write of the document mapping
DOCS14 = {
    "let-ident": 'let\n  pkg = {\n    a = 1;\n  };\nin\npkg\n',
    "let-call-arg": 'let\n  pkg = {\n    a = 1;\n  };\nin\nf pkg\n',
    "lambda-let-ident": '{ lib }:\nlet\n  pkg = {\n    a = 1;\n    k = 0;\n  };\nin\npkg\n',
}
OPS14 = [("get", "a"), ("get", "b"), ("get", "c"), ("mapset", "c", 3), ("mapset", "a", 5), ("mapdel", "a"), ("mapdel", "k"),
         ("scopeset", "pkg", {"b": 2}), ("scopeset", "pkg", {"a": 7, "c": 8}), ("set", "a", "9"), ("rm", "a")]


def _do(src, op):
    """Observable result of one operation on a document object: ('ok', text-or-value) / ('exc', type)."""
    from nix_manipulator.cli.manipulations import remove_value, set_value
    from nix_manipulator.expressions.identifier import Identifier

    kind = op[0]
    try:
        if kind == "set":
            return ("ok", set_value(src, op[1], op[2]))
        if kind == "rm":
            return ("ok", remove_value(src, op[1]))
        if kind == "read":
            ref = src[op[1]]
            v = ref.value if isinstance(ref, Identifier) else ref
            return ("value", v.rebuild().strip())
        if kind == "mapset_foreign":
            from nix_manipulator import parse as _parse

            other = _parse('let q = "FOREIGN"; in { r = q; }\n')
            ident = other["r"]
            _ = ident.value  # resolved in its own document: it carries that document's scope chain
            src[op[1]] = ident
            del other
            return ("ok", src.rebuild())
        if kind == "get":
            v = src[op[1]]
            return ("value", v.rebuild().strip() if hasattr(v, "rebuild") else repr(v))
        if kind == "scopeset":
            src.expr.scope[op[1]] = op[2]
            return ("ok", src.rebuild())
        if kind == "mapset":
            src[op[1]] = op[2]
            return ("ok", src.rebuild())
        if kind == "mapdel":
            del src[op[1]]
            return ("ok", src.rebuild())
    except RecursionError:
        return ("exc", "RecursionError")
    except Exception as e:
        return ("exc", type(e).__name__)
    raise AssertionError(kind)


def _sem(obs):
    """Layout-insensitive view of an observation: the code tokens of an output text."""
    from bounded import nixgen as G

    if obs[0] != "ok":
        return obs
    return ("ok", tuple(G.normalize_tokens(G.code_tokens(G.leaves(G.parse_cst(obs[1]))))))


def eval_script(item):
    from nix_manipulator import parse

    doc, ops = item
    text = ALL_DOCS[doc]
    live = parse(text)
    for k, op in enumerate(ops):
        fresh = parse(text)
        want = _do(fresh, op)
        got = _do(live, op)
        if _sem(got) != _sem(want):
            what = "lookup" if op[0] == "read" else "edit"
            return (f"{what}-on-live-document-differs-from-fresh-parse", k, text, want, got)
        if want[0] == "ok":
            # a trailing newline can be lost by a scoped rm (known, C19); keep the live text as the reference point
            text = want[1]
            try:
                text = live.rebuild()  # same tokens as want[1] (layout may differ: C19's business)
            except Exception as e:
                return ("live-document-rebuild-raises", k, text, want, ("exc", type(e).__name__))
            if parse(text).contains_error:
                return None  # the edit produced text that does not parse: other checks' business (C05)
    return None


def _inline(text):
    """The same document written on one line (bindings parsed from one-line source carry other trivia, which decides
    e.g. whether a re-created binding compares equal to a removed one)."""
    import re

    return re.sub(r"\s*\n\s*", " ", text.strip()) + "\n"


DOCS.update({k + "@inline": _inline(v) for k, v in list(DOCS.items()) if not k.endswith("inline")})
DOCS14.update({k + "@inline": _inline(v) for k, v in list(DOCS14.items())})
# a let layer with several names, edited in place through scoped paths between lookups (the layer object lives as long as the
# document: anything remembered about positions in it must survive removals and additions that keep its length)
DOCS_LAYER = {
    "let-four": 'let\n  first = 1;\n  second = 2;\n  third = 3;\nin\n{\n  a = second;\n  b = third;\n  c = first;\n}\n',
}
OPS_LAYER = [("read", "a"), ("read", "b"), ("read", "c"), ("rm", "@first"), ("rm", "@second"), ("set", "@fourth", "4"), ("set", "@first", "9"),
             ("set", "a", "7"), ("set", "b", "8")]
ALL_DOCS = dict(DOCS, **DOCS14, **DOCS_LAYER)


def scripts(tier, docs=None, alphabet=None):
    n = 3
    for doc in (docs or DOCS):
        for combo in itertools.product(alphabet or OPS, repeat=n):
            yield (doc, list(combo))


def run(prop, tier, seed):
    t0 = time.time()
    items = list(scripts(tier, DOCS14, OPS14)) if prop == "C14" else list(scripts(tier))
    if prop != "C14":
        items += [(d, list(c)) for d in ("rec-plain", "rec-plain-inline") for c in itertools.product(OPS4, repeat=4)]
        items += [(d, list(c)) for d in DOCS_LAYER for c in itertools.product(OPS_LAYER, repeat=4)]
    with mp.get_context("fork").Pool(16) as pool:
        res = pool.map(eval_script, items, chunksize=64)
    vio = {}
    for it, r in zip(items, res):
        if r is None:
            continue
        sym, k, text, want, got = r
        op = it[1][k]
        # what went before, reduced to the kinds of operations (the defect is in the history, not in the values)
        hist = ",".join(o[0] + (":" + o[1] if o[0] in ("rm", "mapdel", "mapset", "scopeset") or o[1].startswith("@") else "") for o in it[1][:k])
        sig = f"{sym}|{it[0]}|after [{hist}]|{op[0]} {op[1]}"
        if it[0].startswith("rec-under-two-lets") and any(tuple(o[:2]) == ("rm", "@x") for o in it[1][:k]):
            # one root cause: the rec set keeps the scope chain it was first given (recorded finding)
            sig = f"{sym}|{it[0].split('@')[0]}|a rec set below two let layers keeps its scope chain after `rm @x`|{op[0]} {op[1]}"
        if sig not in vio:
            vio[sig] = dict(check="live-vs-fresh", signature=sig,
                            what=f"{prop} {sym}: document {it[0]}, history {it[1][:k]}, then {op}: fresh parse gives {want}, live object gives {got}",
                            has_input=True, inputs={"doc": it[0], "ops": it[1]},
                            failing_input={"inputs": {"text": ALL_DOCS[it[0]], "ops": it[1]}, "observed": f"{sym}: {got} instead of {want}",
                                           "origin": "bounded enumeration"})
    return dict(evaluations=len(items), distinct_nontrivial=len(items),
                rule=(f"history independence: {len(DOCS14 if prop == 'C14' else DOCS)} documents x all sequences of 3 operations over {len(OPS14 if prop == 'C14' else OPS)} operations (set/rm "
                      "through a reference, structural set/rm of the defining and shadowing bindings, scoped set/rm, mapping writes, lookups); after "
                      "each step the live object must answer like a fresh parse of its current text"),
                samples=[dict(doc=items[i][0], ops=items[i][1]) for i in (0, len(items) // 2, -1)],
                exhaustive=True, violations=list(vio.values()), seconds=time.time() - t0)


def replay(prop, v):
    i = v["inputs"]
    r = eval_script((i["doc"], [tuple(o) for o in i["ops"]]))
    print(ALL_DOCS[i["doc"]], i["ops"], "->", r)
    if r:
        print(f"VIOLATION property={prop} replay=<given>")
        return 1
    return 0
