"""Bounded stand-in for C16: `python -m nix_manipulator ...` as a subprocess (both input channels)
against the in-process library result."""
from __future__ import annotations

import multiprocessing as mp
import os
import subprocess
import sys
import tempfile
import time

TEXTS = {
    "canonical": "{\n  a = 1;\n  b = 2;\n}\n",
    "canonical-no-eol": "{ a = 1; }",
    "non-canonical": "{a=1;b=2;}\n",
    "erroneous": "{ a = 1;\n",
    "empty": "",
    "blank": "\n\n",
    "two-eol": "{ a = 1; }\n\n",
    "comment-tail": "{ a = 1; }\n# end\n",
    "let": "let\n  v = 1;\nin\n{\n  a = v;\n}\n",
    "unicode": "{ a = \"é\"; }\n",
    # characters Python treats as line boundaries but Nix does not (inside a string and inside a comment)
    "line-separators": "{\n  a = \"x\u2028y\u2029z\x85w\";\n  # c\x0cd\x0be\x1cf\n  b = 2;\n}\n",
    "cr-in-comment": "{\n  a = 1; # x\ry\n}\n",
    "tabs-and-trailing": "{ a = 1; }\n\n\n",
    # a byte-order mark is part of the text: both channels must hand the same characters to the library
    "bom": "\ufeff{\n  a = 1;\n  b = 2;\n}\n",
    "bom-noncanonical": "\ufeff{a=1;}\n",
    # erroneous inputs that do not start with their first token
    "erroneous-leading-newline": "\n{ a = ; }\n",
    "erroneous-leading-space": " { a = 1; }}\n",
    # stray commas in a formals list (the only error in the file)
    "erroneous-double-comma-formals": "{ a,, b }:\n{\n  a = 1;\n  b = 2;\n}\n",
    "erroneous-leading-comma-formals": "{ , pkgs }:\n{\n  a = 1;\n}\n",
    # a name written with a combining character (Nix compares names by code points: this is not the precomposed spelling)
    "decomposed-name": "{\n  \"e\u0301\" = 0;\n  a = 1;\n}\n",
    # bytes that are not UTF-8 (a file saved as Latin-1): there is no text for the library to work on, so every command is an error
    "latin1-comment": "# caf\u00e9\n{\n  a = 1;\n  b = 2;\n}\n".encode("latin-1"),
    "latin1-string": "{\n  a = 1;\n  b = \"\u00fc\";\n}\n".encode("latin-1"),
}
COMMANDS = [("test",), ("set", "a", "2"), ("set", "z", '"s"'), ("set", "a", "{"), ("set", "a..b", "1"), ("set", "@v", "3"),
            ("rm", "a"), ("rm", "zz"), ("rm", ""), ("set", "m.x", "[ 1 ]"), ("bogus",), (),
            # arguments reach the library exactly as given: blanks around a path or a value are part of it (the library refuses such
            # paths), and names are compared by code points (no Unicode normalisation)
            ("set", "a ", "2"), ("set", " a", "2"), ("rm", "a\n"), ("set", '"a" ', "2"), ("rm", "a\t"), ("set", "a", "2\u00a0"),
            # a selector deeper than the let layers of the document (the `let` text has one layer)
            ("rm", "@@v"), ("rm", "@@@v"), ("set", "@@v", "3"),
            ("set", '"e\u0301"', "1"), ("set", '"\u2126"', "1"), ("rm", '"e\u0301"')]


def library(cmd, text):
    """What the library computes (in process)."""
    from nix_manipulator import parse
    from nix_manipulator.cli.manipulations import remove_value, set_value

    if isinstance(text, bytes):
        try:
            text = text.decode("utf-8")
        except UnicodeDecodeError:
            return ("", "nonzero")
    if cmd and cmd[0] == "test":
        from bounded import nixgen as G

        src = parse(text)
        # "free of syntax errors" is tree-sitter's verdict on the input, not the library's own flag
        ok = (not G.parse_cst(text).has_error) and (not src.contains_error) and src.rebuild() == text
        return ("OK\n", 0) if ok else ("Fail\n", 1)
    if cmd and cmd[0] in ("set", "rm"):
        from bounded import nixgen as G

        if G.parse_cst(text).has_error:
            # a source with a syntax error is an error for every edit (tree-sitter's verdict, not the library's own flag)
            return ("", "nonzero")
    if cmd and cmd[0] in ("set", "rm") and len(cmd) >= 2 and cmd[1].startswith("@@"):
        # a selector with more `@` than the document has let layers addresses nothing (set may create only the innermost layer)
        from bounded import readers as RD

        try:
            _e, _t, _layers = RD.read_document(text)
            if _t is not None and len(cmd[1]) - len(cmd[1].lstrip("@")) > len(_layers):
                return ("", "nonzero")
        except Exception:
            pass
    if cmd and cmd[0] == "set" and len(cmd) == 3:
        try:
            out = set_value(parse(text), cmd[1], cmd[2])
        except Exception:
            return ("", "nonzero")
        return (out if out.endswith("\n") else out + "\n", 0)
    if cmd and cmd[0] == "rm" and len(cmd) == 2:
        try:
            out = remove_value(parse(text), cmd[1])
        except Exception:
            return ("", "nonzero")
        return (out if out.endswith("\n") else out + "\n", 0)
    return ("", "nonzero")


def run_cli(cmd, text, channel, tmpdir):
    env = dict(os.environ)
    env["PYTHONPATH"] = os.environ.get("NIMA_REPO", "/repo")
    args = [sys.executable, "-m", "nix_manipulator"] + list(cmd[:1])
    if channel == "file" and cmd and cmd[0] in ("test", "set", "rm"):
        p = os.path.join(tmpdir, f"in-{os.getpid()}.nix")
        with open(p, "wb") as fh:
            fh.write(text if isinstance(text, bytes) else text.encode("utf-8"))
        args += ["-f", p]
        stdin = b""
    else:
        stdin = text if isinstance(text, bytes) else text.encode("utf-8")
    args += list(cmd[1:])
    r = subprocess.run(args, input=stdin, capture_output=True, env=env, timeout=60)
    return r.stdout.decode("utf-8", "replace"), r.returncode, r.stderr.decode("utf-8", "replace")


def eval_case(item):
    tname, cmd, channel = item
    text = TEXTS[tname]
    with tempfile.TemporaryDirectory() as d:
        out, rc, err = run_cli(cmd, text, channel, d)
        exp_out, exp_rc = library(cmd, text)
        if exp_rc == "nonzero":
            if rc == 0:
                return "exit-status-0-on-error"
            if out != "":
                return "stdout-not-empty-on-error"
            return None
        if rc != exp_rc:
            return f"exit-status-{rc}-instead-of-{exp_rc}"
        if out != exp_out:
            return "stdout-differs-from-library-result"
        # redirect over the file, then `nima test` accepts it when the input was canonical
        if cmd and cmd[0] in ("set", "rm") and tname in ("canonical", "let"):
            out2, rc2, _ = run_cli(("test",), out, channel, d)
            if rc2 != 0 or out2 != "OK\n":
                return "edited-canonical-file-fails-nima-test"
            if not out.endswith("\n") or out.endswith("\n\n"):
                return "edited-file-does-not-end-in-exactly-one-newline"
    return None


def inprocess_history(_=None):
    """Several invocations of main() in ONE interpreter (editor plugins, batch drivers, test harnesses do this), each with
    its own stdin: every one must answer like the library on its own input - nothing may be carried from one to the next."""
    import contextlib
    import io

    from nix_manipulator.cli.main import main

    seq = [("canonical", ("test",)), ("erroneous", ("test",)), ("non-canonical", ("test",)), ("canonical", ("set", "a", "2")),
           ("let", ("rm", "a")), ("erroneous", ("set", "a", "2")), ("canonical", ("test",)), ("unicode", ("set", "a", "2"))]
    bad = []
    old_stdin = sys.stdin
    try:
        for k, (tname, cmd) in enumerate(seq):
            text = TEXTS[tname]
            sys.stdin = io.StringIO(text)
            out = io.StringIO()
            try:
                with contextlib.redirect_stdout(out), contextlib.redirect_stderr(io.StringIO()):
                    rc = main(list(cmd))
            except SystemExit as e:
                rc = e.code if isinstance(e.code, int) else 1
            except Exception as e:
                rc = f"raises:{type(e).__name__}"
            exp_out, exp_rc = library(cmd, text)
            got = out.getvalue()
            if exp_rc == "nonzero":
                if rc == 0 or got != "":
                    bad.append(f"step{k}:{' '.join(cmd)} on {tname}: exit {rc}, stdout {got!r} (the library refuses)")
            elif rc != exp_rc or got != exp_out:
                bad.append(f"step{k}:{' '.join(cmd)} on {tname}: exit {rc}, stdout {got!r}; the library gives exit {exp_rc}, {exp_out!r}")
    finally:
        sys.stdin = old_stdin
    return bad


def _show(text):
    return text if isinstance(text, str) else "bytes:" + text.hex()


def run(tier, seed):
    t0 = time.time()
    items = [(t, c, ch) for t in TEXTS for c in COMMANDS for ch in ("stdin", "file")]
    if tier == "quick":
        items = [it for i, it in enumerate(items) if it[2] == "file" or it[0] in ("canonical", "erroneous", "empty", "erroneous-leading-newline", "latin1-comment", "erroneous-double-comma-formals")]
    with mp.get_context("fork").Pool(16) as pool:
        res = pool.map(eval_case, items, chunksize=2)
        hist = pool.apply(inprocess_history)
    vio = []
    if hist:
        vio.append(dict(check="cli-history", signature="in-process-invocations-influence-each-other",
                        what="C16 main() called several times in one interpreter, each with its own stdin: " + "; ".join(hist[:3]), has_input=True,
                        inputs={"history": True},
                        failing_input={"inputs": {"sequence": "see bounded/b_c16.py:inprocess_history"}, "observed": hist[:5], "origin": "in-process run"}))
    for it, sym in zip(items, res):
        if sym:
            sig = f"{sym}|{' '.join(it[1])}|{it[0]}|{it[2]}"
            if isinstance(TEXTS[it[0]], str) and "\r" in TEXTS[it[0]] and it[2] == "file":
                # -f FILE opens in universal-newline mode: a lone CR becomes LF, stdin keeps it (one defect, any command)
                sig = "stdin-and-file-channel-disagree-on-carriage-returns"
            vio.append(dict(check="cli", signature=sig, what=f"C16 {sym}: nima {' '.join(it[1])} on {it[0]} via {it[2]}", has_input=True,
                            inputs={"text": _show(TEXTS[it[0]]), "cmd": list(it[1]), "channel": it[2], "tname": it[0]},
                            failing_input={"inputs": {"text": _show(TEXTS[it[0]]), "cmd": list(it[1]), "channel": it[2]}, "observed": sym,
                                           "origin": "subprocess run"}))
    return dict(evaluations=len(items) + 8, distinct_nontrivial=len(items) + 8,
                rule=f"(plus one history of 8 in-process main() calls with their own stdin) {len(TEXTS)} input texts (canonical, non-canonical, erroneous, empty, ...) x {len(COMMANDS)} command lines (succeeding and "
                     "failing set/rm/test, unknown command, none) x input channel (stdin, -f FILE), run as `python -m nix_manipulator` and compared with the in-process library result",
                samples=[dict(cmd=list(i[1]), text=_show(TEXTS[i[0]]), channel=i[2]) for i in items[:3]], exhaustive=True, violations=vio,
                seconds=time.time() - t0)


def replay(v):
    i = v["inputs"]
    if i.get("history"):
        bad = inprocess_history()
        print(bad)
        if bad:
            print("VIOLATION property=C16 replay=<given>")
            return 1
        return 0
    sym = eval_case((i["tname"], tuple(i["cmd"]), i["channel"]))
    print(i, "->", sym)
    if sym:
        print("VIOLATION property=C16 replay=<given>")
        return 1
    return 0
