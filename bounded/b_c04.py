"""Bounded stand-in for C04 (see bounded/edits.py)."""
from bounded import edits as E


def run(tier, seed):
    return E.run_edits("C04", tier, seed)


def replay(v):
    return E.replay_edit("C04", v)
