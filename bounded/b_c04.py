"""Bounded stand-in for C04 (see bounded/edits.py), plus the constructed reference documents of C11: when the edited
path holds a reference, "only the addressed binding changes" means only the binding that defines the name (the expected
text is known by construction there)."""
from bounded import b_c11
from bounded import edits as E


def run(tier, seed):
    r = E.run_edits("C04", tier, seed)
    # an edit through a reference that lands in the wrong binding changes something outside the addressed one: the constructed
    # reference documents and the live-vs-fresh histories of C11 belong to C04 as well
    refs = b_c11.run(tier, seed)
    for v in refs["violations"]:
        v["what"] = v["what"].replace("C11", "C04", 1)
    return E.merge(r, refs)


def replay(v):
    if "case" in v["inputs"] or "ops" in v["inputs"]:
        return b_c11.replay(v)
    return E.replay_edit("C04", v)
