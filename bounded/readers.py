"""Independent readers over the tree-sitter CST (no nix_manipulator code): the attribute tree of the
editable set of a document, and the chain of let layers around it.  Used as oracles by the bounded
stand-ins of the edit properties."""
from __future__ import annotations

from bounded import nixgen as G
from specs.nixlex import DQ_D, DQ_N, DQ_R, dq_decode, dq_state


def node_text(n):
    return n.text.decode("utf-8")


def norm_value(n):
    """Value identity: the code-token sequence of the value expression."""
    return " ".join(x for (t, x, _s, _e) in G.leaves(n) if t != "comment")


def attr_name(n):
    """Decode one attrpath component to the attribute name Nix reads (None if interpolated)."""
    if n.type == "identifier":
        return node_text(n)
    if n.type == "string_expression":
        body = node_text(n)[1:-1]
        if dq_state(body) in (DQ_N, DQ_D, DQ_R):
            return dq_decode(body)
        return None
    return None


def unwrap_to_set(node):
    """Follow the wrappers of an editable document down to its attribute set node.
    Returns (set node, [let nodes outermost first])."""
    lets = []
    n = node
    while True:
        t = n.type
        if t == "source_code":
            kids = [c for c in n.children if c.type != "comment"]
            if len(kids) != 1:
                return None, lets
            n = kids[0]
        elif t in ("attrset_expression", "rec_attrset_expression"):
            return n, lets
        elif t == "let_expression":
            lets.append(n)
            n = n.child_by_field_name("body")
        elif t == "function_expression":
            n = n.child_by_field_name("body")
        elif t in ("with_expression", "assert_expression"):
            n = n.child_by_field_name("body")
        elif t == "parenthesized_expression":
            n = n.child_by_field_name("expression")
        elif t == "apply_expression":
            n = n.child_by_field_name("argument")
        else:
            return None, lets
        if n is None:
            return None, lets


def bindings_of(container):
    """binding / inherit nodes of a set or let node."""
    out = []
    for c in container.children:
        if c.type == "binding_set":
            out.extend(x for x in c.children if x.type in ("binding", "inherit", "inherit_from"))
    return out


class Dup(Exception):
    pass


def tree_of_set(set_node):
    """Nested dict: name -> value text | dict (for attribute sets); attrpaths are merged the way Nix
    merges them.  Raises Dup on a duplicate definition.  Keys keep definition order."""
    tree = {}

    def insert(t, names, value_node):
        name = names[0]
        if len(names) == 1:
            if value_node.type in ("attrset_expression", "rec_attrset_expression"):
                sub = tree_of_set(value_node)
                if name in t:
                    if isinstance(t[name], dict):
                        for k, v in sub.items():
                            if k in t[name]:
                                raise Dup(name)
                            t[name][k] = v
                        return
                    raise Dup(name)
                t[name] = sub
                return
            if name in t:
                raise Dup(name)
            t[name] = norm_value(value_node)
            return
        if name in t and not isinstance(t[name], dict):
            raise Dup(name)
        t.setdefault(name, {})
        insert(t[name], names[1:], value_node)

    for b in bindings_of(set_node):
        if b.type == "binding":
            ap = b.child_by_field_name("attrpath")
            comps = [c for c in ap.children if c.type not in (".", "comment")]
            names = [attr_name(c) for c in comps]
            if any(nm is None for nm in names):
                names = [node_text(c) for c in comps]
            val = b.child_by_field_name("expression")
            insert(tree, names, val)
        else:
            attrs = [c for c in b.children if c.type == "inherited_attrs"]
            src = b.child_by_field_name("expression")
            for a in attrs:
                for c in a.children:
                    if c.type == "comment":
                        continue
                    nm = attr_name(c)
                    if nm in tree:
                        raise Dup(nm)
                    tree[nm] = ("inherit", norm_value(src) if src is not None else None)
    return tree


def read_document(text):
    """(has_error, attribute tree of the editable set | None, [layer trees outermost first])"""
    root = G.parse_cst(text)
    if root.has_error:
        return True, None, []
    set_node, lets = unwrap_to_set(root)
    if set_node is None:
        return False, None, []
    layers = []
    for ln in lets:
        layers.append(tree_of_set(ln))
    return False, tree_of_set(set_node), layers


def find_binding_extent(text, path_names):
    """Byte extent (start, end) of the binding addressed by `path_names` in the editable set (explicit
    nesting or attrpath form), plus the extent of its value; None if absent."""
    root = G.parse_cst(text)
    set_node, _ = unwrap_to_set(root)
    if set_node is None:
        return None

    def search(container, names):
        for b in bindings_of(container):
            if b.type != "binding":
                continue
            ap = b.child_by_field_name("attrpath")
            comps = [attr_name(c) for c in ap.children if c.type not in (".", "comment")]
            val = b.child_by_field_name("expression")
            if comps == names:
                return (b.start_byte, b.end_byte), (val.start_byte, val.end_byte)
            if len(comps) < len(names) and comps == names[: len(comps)] and val.type in ("attrset_expression", "rec_attrset_expression"):
                r = search(val, names[len(comps):])
                if r:
                    return r
        return None

    return search(set_node, path_names)
