"""Bounded stand-ins for the properties about parse -> rebuild as a whole (C01, C03, C06, C18, C15,
C20-exceptions).  The property is written as a postcondition on the real entry point
`parse(text).rebuild()` and evaluated over the enumerated programs of nixgen.py with oracles that
are independent of nix_manipulator (tree-sitter leaves).  Results are *bounded*, never "proved".
"""
from __future__ import annotations

import multiprocessing as mp
import os
import re
import time

from bounded import nixgen as G


def rebuild(text):
    from nix_manipulator import parse

    return parse(text).rebuild()


# ---------------------------------------------------------------------------------------------
# postconditions (each returns None if it holds, else a short symptom string)


def post_c01(text, out):
    r_in = G.parse_cst(text)
    r_out, _ = G.parse_cst_lenient(out)
    if G.has_error(r_out):
        return "output-has-syntax-error"
    a = G.normalize_tokens(G.code_tokens(G.leaves(r_in)))
    b = G.normalize_tokens(G.code_tokens(G.leaves(r_out)))
    if a != b:
        # find first difference for the symptom
        k = 0
        while k < min(len(a), len(b)) and a[k] == b[k]:
            k += 1
        ta = a[k][0] if k < len(a) else "<end>"
        tb = b[k][0] if k < len(b) else "<end>"
        return f"token-sequence-differs:{ta}->{tb}"
    return None


def post_c03(text, out):
    lv_in = G.leaves(G.parse_cst(text))
    r_out, _ = G.parse_cst_lenient(out)
    if G.has_error(r_out):
        return None  # C01's business
    lv_out = G.leaves(r_out)
    pin = G.comment_profile(lv_in)
    pout = G.comment_profile(lv_out)
    if [c for c, _ in pin] != [c for c, _ in pout]:
        if sorted(c for c, _ in pin) == sorted(c for c, _ in pout):
            return "comments-reordered"
        if len(pout) < len(pin):
            return "comment-dropped"
        if len(pout) > len(pin):
            return "comment-duplicated"
        return "comment-wording-changed"
    if pin != pout:
        return "comment-crossed-a-token"
    # code never becomes comment: covered by equal comment lists + C01 token equality
    return None


def post_c06(text, out):
    lv_in = G.leaves(G.parse_cst(text))
    if not G.comments_line_level(text, lv_in):
        return None  # outside the property's quantifier
    try:
        out2 = rebuild(out)
    except Exception as e:
        return f"second-rebuild-raises:{type(e).__name__}"
    if out2 != out:
        # does the second pass change anything but the inside of comments?
        l1, l2 = G.leaves(G.parse_cst_lenient(out)[0]), G.leaves(G.parse_cst_lenient(out2)[0])
        skel = lambda lv, txt: [(t, x if t != "comment" else "") for t, x, _s, _e in lv]
        if skel(l1, out) == skel(l2, out2) and _gaps(out, l1) == _gaps(out2, l2):
            return "not-a-fixed-point:comment-body-drifts"
        return "not-a-fixed-point"
    return None


def _gaps(text, lv):
    b = text.encode("utf-8")
    out = []
    prev = 0
    for t, x, s, e in lv:
        out.append(b[prev:s])
        prev = e
    out.append(b[prev:])
    return out


_CLOSERS = {"}": "{", "]": "[", ")": "("}


def post_c18(text, out):
    r_out, out_l = G.parse_cst_lenient(out)
    if G.has_error(r_out):
        return None  # C01's business
    lv = G.leaves(r_out)
    b = out.encode("utf-8")
    if not lv:
        return None
    if lv[0][2] != 0:
        return "whitespace-before-first-token"
    prev_end = 0
    prev = None
    for t, x, s, e in lv:
        gap = b[prev_end:s].decode("utf-8", "replace")
        if "\t" in gap:
            return "tab-in-gap"
        if re.search(r"[ \t]\n", gap):
            return "trailing-whitespace"
        if re.search(r"\n[ \t]*\n[ \t]*\n", gap):
            return "more-than-one-blank-line"
        if "," in gap:
            # a trailing comma of a formals list blanked out by the lenient parse: it is a token
            prev_end = e
            prev = (t, x)
            continue
        if prev is not None and "\n" not in gap:
            in_string = prev[0] in ('"', "''", "string_fragment", "escape_sequence", "${", "interpolation") or \
                t in ('"', "''", "string_fragment", "escape_sequence")
            if not in_string and len(gap) > 1:
                return f"several-spaces-between:{prev[0]}~{t}"
            if t in (";", ":") and gap != "" and prev[0] != "comment":
                return f"detached-{t}"
        prev_end = e
        prev = (t, x)
    sym = _indentation_clause(out, lv)
    if sym:
        return sym
    tail = b[prev_end:].decode("utf-8", "replace")
    if "\t" in tail or re.search(r"[ \t]\n", tail) or re.search(r"[ \t]$", tail):
        return "trailing-whitespace-at-eof"
    if re.search(r"\n[ \t]*\n[ \t]*\n", tail):
        return "more-than-one-blank-line-at-eof"
    # comment bodies may not carry tabs/trailing blanks introduced by the renderer either, but the
    # statement excludes comment contents, so they are not scanned.
    return None


def _indentation_clause(out, lv):
    """C18, last sentence: a closing delimiter that starts a line is indented like the line that holds its opening
    delimiter; an own-line `#` comment is indented like the next line of code, or (last thing before a closing
    delimiter) one level deeper than the line of the opener."""
    b = out.encode("utf-8")
    line_start = [0]
    for i, ch in enumerate(b):
        if ch == 10:
            line_start.append(i + 1)
    import bisect

    def line_of(pos):
        return bisect.bisect_right(line_start, pos) - 1

    def indent_of_line(k):
        j = line_start[k]
        n = 0
        while j < len(b) and b[j] == 32:
            n += 1
            j += 1
        return n

    first_on_line = {}
    for t, x, s_, e in lv:
        first_on_line.setdefault(line_of(s_), (t, s_))
    stack = []
    code_lines = sorted(k for k, (t, _s) in first_on_line.items() if t != "comment")
    for idx, (t, x, s_, e) in enumerate(lv):
        if t in ("{", "[", "(", "${"):
            stack.append((t, line_of(s_)))
        elif t in ("}", "]", ")"):
            if not stack:
                return None
            ot, oline = stack.pop()
            if ot == "${":
                continue
            k = line_of(s_)
            if first_on_line.get(k, (None, None))[1] == s_ and k != oline:
                if s_ - line_start[k] != indent_of_line(oline):
                    return f"closing-delimiter-not-indented-with-its-structure:{t}"
        elif t == "comment" and x.startswith("#"):
            k = line_of(s_)
            if first_on_line.get(k, (None, None))[1] != s_ or k == 0 and s_ == 0:
                continue
            col = s_ - line_start[k]
            nxt = next((c for c in code_lines if c > k), None)
            ok = set()
            if nxt is not None:
                nt = first_on_line[nxt][0]
                ok.add(indent_of_line(nxt) + (2 if nt in ("}", "]", ")", "in", "then", "else") else 0))
                ok.add(indent_of_line(nxt))
            if stack:
                ok.add(indent_of_line(stack[-1][1]) + 2)
            if nxt is None and not stack:
                ok.add(0)
            if col not in ok:
                return "own-line-comment-not-indented-with-its-structure"
    return None


def _snapshot(obj, seen=None, depth=0):
    """Deep structural snapshot incl. list identities and Scope.owner (C15)."""
    import dataclasses

    from nix_manipulator.expressions.scope import Scope

    if seen is None:
        seen = {}
    if depth > 60:
        return "<deep>"
    if id(obj) in seen:
        return ("ref", seen[id(obj)])
    if isinstance(obj, (str, int, float, bool, bytes)) or obj is None:
        return obj
    seen[id(obj)] = len(seen)
    if isinstance(obj, Scope):
        return ("Scope", id(obj), id(obj.owner) if obj.owner is not None else None,
                [_snapshot(x, seen, depth + 1) for x in obj])
    if isinstance(obj, list):
        return ("list", id(obj), [_snapshot(x, seen, depth + 1) for x in obj])
    if isinstance(obj, tuple):
        return ("tuple", [_snapshot(x, seen, depth + 1) for x in obj])
    if isinstance(obj, dict):
        return ("dict", id(obj), [(k, _snapshot(v, seen, depth + 1)) for k, v in obj.items()])
    if dataclasses.is_dataclass(obj):
        return (type(obj).__name__, id(obj), [(f.name, _snapshot(getattr(obj, f.name), seen, depth + 1))
                                              for f in dataclasses.fields(obj)])
    if hasattr(obj, "expressions") and hasattr(obj, "trailing"):
        return ("Source", [_snapshot(x, seen, depth + 1) for x in obj.expressions], _snapshot(obj.trailing, seen, depth + 1),
                obj.contains_error)
    return ("obj", type(obj).__name__)


def post_c15(text, out_unused):
    from nix_manipulator import parse

    src = parse(text)
    before = _snapshot(src)
    r1 = src.rebuild()
    after = _snapshot(src)
    r2 = src.rebuild()
    if r1 != r2:
        return "repeated-rebuild-differs"
    if before != after:
        return "rebuild-mutates-tree:" + _first_diff(before, after)
    return None


def _first_diff(a, b, path=""):
    if type(a) != type(b):
        return path + ":type"
    if isinstance(a, (tuple, list)):
        if len(a) != len(b):
            return path + ":len"
        for i, (x, y) in enumerate(zip(a, b)):
            if x != y:
                tag = x if isinstance(x, str) and i == 0 else ""
                name = a[0] if a and isinstance(a[0], str) else ""
                return _first_diff(x, y, f"{path}/{name}" if i else path)
        return path
    return path + ":value"


POSTS = {"C01": post_c01, "C03": post_c03, "C06": post_c06, "C18": post_c18, "C15": post_c15}


def _eval_chunk(args):
    prop, progs = args
    post = POSTS[prop]
    out = []
    for p in progs:
        text = p["text"]
        try:
            if prop == "C15":
                sym = post(text, None)
            else:
                from nix_manipulator import parse

                doc = parse(text)
                r = doc.rebuild()
                sym = post(text, r)
                if sym is None and prop in ("C01", "C03", "C06", "C18"):
                    # the property speaks about every rebuild of the document, not only the first one
                    r2 = doc.rebuild()
                    if r2 != r:
                        sym = post(text, r2)
                        if sym is not None:
                            sym = "on-second-rebuild-of-the-same-document:" + sym
        except ValueError as e:
            # an explicit refusal (documented failure mode, C20) is not a silent change of meaning
            sym = None
        except RecursionError:
            sym = None
        except Exception as e:
            sym = f"rebuild-raises:{type(e).__name__}" if prop in ("C01",) else None
        if sym is not None:
            if p.get("filler") == "multi":
                # reduce to the single-slot variants that fail on their own (same defect, smaller input)
                reduced = []
                for q in p.get("singles", []):
                    try:
                        s2 = post(q["text"], None if prop == "C15" else rebuild(q["text"]))
                    except ValueError:
                        s2 = None
                    except Exception as e:
                        s2 = f"rebuild-raises:{type(e).__name__}"
                    if s2 is not None:
                        q2 = dict(q, template=p["template"], id=p["id"])
                        reduced.append((q2, s2))
                if reduced:
                    out.extend(reduced)
                    continue
            p = {k: v for k, v in p.items() if k not in ("toks", "singles")}
            if "pair" in p:
                p["pair"] = list(p["pair"])
            out.append((p, sym))
    return len(progs), out


def run_roundtrip(prop: str, tier: str, seed: int, *, budget_s=None):
    t0 = time.time()
    progs = list(G.programs(tier, seed))
    chunks = [progs[i::64] for i in range(64)]
    ctx = mp.get_context("fork")
    with ctx.Pool(16) as pool:
        res = pool.map(_eval_chunk, [(prop, c) for c in chunks if c], chunksize=1)
    n = sum(r[0] for r in res)
    violations = []
    by_sig = {}
    # a base program whose canonical spelling already fails explains its variants' same symptom
    canon_fail = {}
    for _, outs in res:
        for p, sym in outs:
            if p.get("slot") is None:
                canon_fail[(p["template"], p["id"].split("|")[1])] = sym
    failing_texts = {p["text"] for _, outs in res for p, _sym in outs}
    for _, outs in res:
        for p, sym in outs:
            base = (p["template"], p["id"].split("|")[1])
            if p.get("slot") is not None and canon_fail.get(base) == sym:
                continue
            if p.get("lead_of") and p["lead_of"] in failing_texts:
                continue  # fails without the leading whitespace as well: reported there
            if p.get("singles_text") and any(t in failing_texts for t in p["singles_text"]):
                continue  # one of the two gaps fails on its own: reported there
            sig = G.signature(p, sym)
            if sig not in by_sig:
                by_sig[sig] = dict(check="roundtrip", signature=sig, what=f"{prop} {sym} on program {p['id']}",
                                   inputs={"text": p["text"]}, symptom=sym, has_input=True,
                                   failing_input={"inputs": {"text": p["text"]}, "observed": sym, "origin": "bounded enumeration"})
    violations = list(by_sig.values())
    templates = sorted({p["template"] for p in progs})
    return dict(
        evaluations=n, distinct_nontrivial=len({p["text"] for p in progs}),
        rule=(f"bounded stand-in: every program of bounded/nixgen.py ({len(templates)} construct templates, holes filled with "
              f"atoms/sub-expressions, one gap slot x {len(G.FILLERS)} fillers"
              + ("; thorough: every hole also filled with every atom and every sub-expression" if tier == "thorough" else "")
              + "), kept when tree-sitter accepts it and its code tokens equal the canonical spelling; each distinct text is one case"),
        samples=[dict(program=p["id"], text=p["text"]) for p in progs[:: max(1, len(progs) // 4)][:4]],
        exhaustive=True, violations=violations, seconds=time.time() - t0,
    )


def replay_roundtrip(prop, v):
    text = v["inputs"]["text"]
    try:
        r = rebuild(text) if prop != "C15" else None
        sym = POSTS[prop](text, r)
        if sym is None and prop in ("C01", "C03", "C06", "C18"):
            from nix_manipulator import parse

            doc = parse(text)
            doc.rebuild()
            r2 = doc.rebuild()
            if r2 != r and POSTS[prop](text, r2) is not None:
                sym = "on-second-rebuild-of-the-same-document:" + POSTS[prop](text, r2)
                r = r2
    except Exception as e:
        sym = f"rebuild-raises:{type(e).__name__}"
    print("input:", repr(text))
    if r is not None:
        print("rebuilt:", repr(r))
    print("symptom:", sym)
    if sym is not None:
        print(f"VIOLATION property={prop} replay=<given>")
        return 1
    return 0
