"""Bounded stand-in for C08 (see bounded/edits.py)."""
from bounded import edits as E


def run(tier, seed):
    return E.run_edits("C08", tier, seed)


def replay(v):
    return E.replay_edit("C08", v)
