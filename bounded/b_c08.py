"""Bounded stand-in for C08 (see bounded/edits.py), plus documents of an unsupported top-level shape: `set` / `rm` on them must be
refused with KeyError or ValueError (no other exception type), and leave the document as it was."""
from bounded import edits as E

UNSUPPORTED = {
    "identifier": "foo\n", "application": "f x\n", "list": "[ 1 2 ]\n", "string": '"s"\n', "integer": "1\n", "with-identifier-body": "with p;\nx\n",
    "let-identifier-body": "let\n  x = y;\nin\nx\n", "lambda-identifier-body": "{ a }:\na\n", "if": "if c then { a = 1; } else { a = 2; }\n",
    "two-expressions": "{ a = 1; }\n{ b = 2; }\n", "empty": "", "comment-only": "# nothing\n", "binary": "{ a = 1; } // { b = 2; }\n",
}


def unsupported_shapes():
    from nix_manipulator import parse
    from nix_manipulator.cli.manipulations import remove_value, set_value

    vio = []
    n = 0
    for name, text in UNSUPPORTED.items():
        for op, path in (("set", "a"), ("rm", "a"), ("set", "a.b"), ("set", "@v"), ("rm", "@v")):
            n += 1
            try:
                src = parse(text)
                before = src.rebuild()
            except Exception:
                continue
            try:
                out = set_value(src, path, "1") if op == "set" else remove_value(src, path)
                sym = None  # accepted: whether the result is right is C05's business
            except (KeyError, ValueError):
                sym = None if src.rebuild() == before else "refused-edit-changed-document"
            except Exception as e:
                sym = f"refusal-is-neither-KeyError-nor-ValueError:{type(e).__name__}"
            if sym:
                sig = f"{sym}|top-level shape {name}"
                vio.append(dict(check="unsupported-shape", signature=sig, what=f"C08 {sym}: {op} {path} on a document whose top level is: {name}", has_input=True,
                                inputs={"shape": name, "op": op, "path": path},
                                failing_input={"inputs": {"text": text, "op": op, "path": path}, "observed": sym, "origin": "bounded enumeration"}))
    seen = {}
    for v in vio:
        seen.setdefault(v["signature"], v)
    return dict(evaluations=n, distinct_nontrivial=n, rule="13 documents of an unsupported top-level shape x 5 edits: refusal by KeyError / ValueError only",
                samples=[], exhaustive=True, violations=list(seen.values()), seconds=0.0)


NON_SET_ON_PATH = [
    # (document, path): the path runs through a value that is not a set; the edit must be refused and leave the document alone
    ('{\n  a = 1;\n  src = fetchurl {\n    inherit sha256;\n  };\n  sha256 = "x";\n}\n', "a.src.sha256"),
    ('{\n  a = 1;\n  src = fetchurl {\n    inherit sha256;\n  };\n  sha256 = "x";\n}\n', "a.sha256"),
    ('{\n  a = "s";\n  b = 2;\n}\n', "a.b"),
    ('{\n  a = [ 1 ];\n  b = 2;\n}\n', "a.b.c"),
    ('{\n  a = f x;\n  x = 2;\n}\n', "a.x"),
]


def non_set_on_path():
    from nix_manipulator import parse
    from nix_manipulator.cli.manipulations import set_value

    vio = []
    for text, path in NON_SET_ON_PATH:
        src = parse(text)
        before = src.rebuild()
        try:
            set_value(src, path, '"y"')
            sym = "edit-that-cannot-be-applied-was-accepted:non-set on the path"
        except (KeyError, ValueError):
            sym = None if src.rebuild() == before else "refused-edit-changed-document"
        except Exception as e:
            sym = f"refusal-is-neither-KeyError-nor-ValueError:{type(e).__name__}"
        if sym:
            vio.append(dict(check="non-set-on-path", signature=f"{sym}|set {path}|{text.splitlines()[2].strip() if 'src' in text else text.splitlines()[1].strip()}",
                            what=f"C08 {sym}: set {path} on {text!r}", has_input=True, inputs={"nonset": [text, path]},
                            failing_input={"inputs": {"text": text, "op": "set", "path": path, "value": '"y"'}, "observed": sym, "origin": "bounded enumeration"}))
    return dict(evaluations=len(NON_SET_ON_PATH), distinct_nontrivial=len(NON_SET_ON_PATH), rule="5 paths that run through a non-set value (incl. next to an `inherit` of the last segment)",
                samples=[], exhaustive=True, violations=vio, seconds=0.0)


def run(tier, seed):
    return E.merge(E.run_edits("C08", tier, seed), unsupported_shapes(), non_set_on_path())


def replay(v):
    if "nonset" in v["inputs"]:
        hit = [x for x in non_set_on_path()["violations"] if x["signature"] == v.get("signature")]
        print(hit[:1] or "not reproduced")
        if hit:
            print("VIOLATION property=C08 replay=<given>")
            return 1
        return 0
    if "shape" in v["inputs"]:
        r = unsupported_shapes()
        hit = [x for x in r["violations"] if x["signature"] == v.get("signature")]
        print(hit[:1] or "not reproduced")
        if hit:
            print("VIOLATION property=C08 replay=<given>")
            return 1
        return 0
    return E.replay_edit("C08", v)
