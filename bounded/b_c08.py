"""Bounded stand-in for C08 (see bounded/edits.py), plus documents of an unsupported top-level shape: `set` / `rm` on them must be
refused with KeyError or ValueError (no other exception type), and leave the document as it was."""
from bounded import edits as E

UNSUPPORTED = {
    "identifier": "foo\n", "application": "f x\n", "list": "[ 1 2 ]\n", "string": '"s"\n', "integer": "1\n", "with-identifier-body": "with p;\nx\n",
    "let-identifier-body": "let\n  x = y;\nin\nx\n", "lambda-identifier-body": "{ a }:\na\n", "if": "if c then { a = 1; } else { a = 2; }\n",
    "two-expressions": "{ a = 1; }\n{ b = 2; }\n", "empty": "", "comment-only": "# nothing\n", "binary": "{ a = 1; } // { b = 2; }\n",
}


def unsupported_shapes():
    from nix_manipulator import parse
    from nix_manipulator.cli.manipulations import remove_value, set_value

    vio = []
    n = 0
    for name, text in UNSUPPORTED.items():
        for op, path in (("set", "a"), ("rm", "a"), ("set", "a.b"), ("set", "@v"), ("rm", "@v")):
            n += 1
            try:
                src = parse(text)
                before = src.rebuild()
            except Exception:
                continue
            try:
                out = set_value(src, path, "1") if op == "set" else remove_value(src, path)
                sym = None  # accepted: whether the result is right is C05's business
            except (KeyError, ValueError):
                sym = None if src.rebuild() == before else "refused-edit-changed-document"
            except Exception as e:
                sym = f"refusal-is-neither-KeyError-nor-ValueError:{type(e).__name__}"
            if sym:
                sig = f"{sym}|top-level shape {name}"
                vio.append(dict(check="unsupported-shape", signature=sig, what=f"C08 {sym}: {op} {path} on a document whose top level is: {name}", has_input=True,
                                inputs={"shape": name, "op": op, "path": path},
                                failing_input={"inputs": {"text": text, "op": op, "path": path}, "observed": sym, "origin": "bounded enumeration"}))
    seen = {}
    for v in vio:
        seen.setdefault(v["signature"], v)
    return dict(evaluations=n, distinct_nontrivial=n, rule="13 documents of an unsupported top-level shape x 5 edits: refusal by KeyError / ValueError only",
                samples=[], exhaustive=True, violations=list(seen.values()), seconds=0.0)


def run(tier, seed):
    return E.merge(E.run_edits("C08", tier, seed), unsupported_shapes())


def replay(v):
    if "shape" in v["inputs"]:
        r = unsupported_shapes()
        hit = [x for x in r["violations"] if x["signature"] == v.get("signature")]
        print(hit[:1] or "not reproduced")
        if hit:
            print("VIOLATION property=C08 replay=<given>")
            return 1
        return 0
    return E.replay_edit("C08", v)
