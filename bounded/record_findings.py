"""Developer tool (never run by a check): list the signatures of the bounded stand-ins that fail on
the current tree, for review before they are committed to known_findings.json."""
import json
import os
import sys

ROOT = os.path.dirname(os.path.dirname(os.path.abspath(__file__)))
sys.path.insert(0, ROOT)


def main():
    from harness.props import PROPS
    import importlib

    props = sys.argv[1:]
    path = os.path.join(ROOT, "known_findings.json")
    data = json.load(open(path))
    keep = [f for f in data["findings"] if not (f.get("kind") == "signature" and f.get("property") in props and f.get("auto"))]
    new = []
    for prop in props:
        mod = importlib.import_module(PROPS[prop]["bounded"])
        sigs = {}
        for tier in ("quick", "thorough"):
            r = mod.run(tier, 0)
            for v in r["violations"]:
                sigs.setdefault((v["check"], v["signature"]), v)
        for (check, sig), v in sorted(sigs.items()):
            new.append(dict(property=prop, kind="signature", check=check, signature=sig, auto=True,
                            example=v["inputs"], what=f"{check}: {sig}"))
        print(prop, len(sigs), "signatures")
    data["findings"] = keep + new
    json.dump(data, open(path, "w"), indent=1, ensure_ascii=False)


if __name__ == "__main__":
    main()
