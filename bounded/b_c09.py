"""Bounded stand-in for C09: scope selectors address exactly the intended let layer.  The let chain
decoded from the output CST (bounded/readers.py) is compared with the layer model (outermost first;
`@`xd addresses layers[len-d]) for 0..2 layers around every editable shape, all selector depths, a
name present in several layers, and sequences of scoped set/rm."""
import itertools

from bounded import edits as E

SCOPED = [("set", "@v", "9"), ("set", "@@v", "8"), ("set", "@w", "7"), ("set", "@@u", "6"), ("set", "@new", "5"), ("rm", "@v", None),
          ("rm", "@@v", None), ("rm", "@w", None), ("rm", "@@u", None), ("set", "@@@x", "1"), ("rm", "@@@x", None), ("set", "@v.k", "1"),
          ("rm", "@new", None), ("set", "a", "3")]


def scripts(tier):
    docs = [(d, t) for d, t in E.documents(tier) if d.split("/")[1] in ("flat", "attrpath", "comments", "inline")]
    n = 2 if tier == "quick" else 3
    for d, t in docs:
        for combo in itertools.product(SCOPED, repeat=n):
            yield (d, t, list(combo))


def mapping_vs_cli(tier):
    """The expression's own `scope` mapping is its outermost let layer: removing / assigning a name there through the mapping API
    must give the text that the selector of that depth gives through the CLI (only the emptied wrapper goes, the other layers and
    the body keep their text) - for documents with at least two layers."""
    from bounded import readers as RD
    from nix_manipulator import parse
    from nix_manipulator.cli.manipulations import _resolve_target_set, remove_value, set_value

    bad = []
    n = 0
    for d, t in E.documents(tier):
        try:
            err, tree, layers = RD.read_document(t)
        except Exception:
            continue
        if err or tree is None or len(layers) < 2:
            continue
        sel = "@" * len(layers)
        for name, val in layers[0].items():
            if not isinstance(val, str) or "." in name or '"' in name:
                continue
            for op in ("rm", "set"):
                n += 1
                try:
                    cli = remove_value(parse(t), sel + name) if op == "rm" else set_value(parse(t), sel + name, "5")
                except Exception as e:
                    cli = f"exc:{type(e).__name__}"
                try:
                    src = parse(t)
                    target = _resolve_target_set(src)
                    if op == "rm":
                        del target.scope[name]
                    else:
                        target.scope[name] = 5
                    api = src.rebuild()
                except Exception as e:
                    api = f"exc:{type(e).__name__}"
                if cli != api:
                    w, c = d.split("/")
                    bad.append(dict(check="scope-mapping-vs-selector", signature=f"{op}-through-the-scope-mapping-differs-from-{op}-{sel}name|wrapper={w}",
                                    what=f"C09 {op} of `{name}` in the outermost of {len(layers)} layers: scope mapping gives another text than `{op} {sel}{name}` on {d}",
                                    has_input=True, inputs={"text": t, "name": name, "op": op, "selector": sel, "mapping": True},
                                    failing_input={"inputs": {"text": t, "op": op, "name": name}, "observed": f"selector gives {cli!r}, scope mapping gives {api!r}", "origin": "bounded enumeration"}))
    seen = {}
    for b in bad:
        seen.setdefault(b["signature"], b)
    return dict(evaluations=n, distinct_nontrivial=n, rule="rm / set of every plain name of the outermost layer through expr.scope vs through the selector, on every document with >= 2 layers",
                samples=[], exhaustive=True, violations=list(seen.values()), seconds=0.0)


def run(tier, seed):
    single = E.run_edits("C05", tier, seed, case_filter=lambda c: c[3].startswith("@"))
    seq = E.run_scripts("C05", list(scripts(tier)),
                        "sequences of %d scoped/unscoped edits (14-operation alphabet incl. depths 1-3, a name bound in two layers, layer "
                        "creation and pruning) on every wrapper x 4 contents; after every step let layers and attribute tree read from the "
                        "output CST must equal the layer model" % (2 if tier == "quick" else 3))
    text = E.run_edits("C09", tier, seed, case_filter=lambda c: c[3].startswith("@"))
    r = E.merge(single, seq, text, mapping_vs_cli(tier))
    for v in r["violations"]:
        v["what"] = v["what"].replace("C05", "C09", 1)
    return r


def replay(v):
    if v["inputs"].get("mapping"):
        r = mapping_vs_cli("thorough")
        hit = [x for x in r["violations"] if x["signature"] == v.get("signature")]
        print(hit[:1] or "not reproduced")
        if hit:
            print("VIOLATION property=C09 replay=<given>")
            return 1
        return 0
    if "script" in v["inputs"]:
        return E.replay_script("C05", v)
    if "text outside" in v.get("what", "") or "changed-text" in v.get("signature", ""):
        return E.replay_edit("C09", v)
    return E.replay_edit("C05", v)
