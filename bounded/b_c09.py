"""Bounded stand-in for C09: scope selectors address exactly the intended let layer.  The let chain
decoded from the output CST (bounded/readers.py) is compared with the layer model (outermost first;
`@`xd addresses layers[len-d]) for 0..2 layers around every editable shape, all selector depths, a
name present in several layers, and sequences of scoped set/rm."""
import itertools

from bounded import edits as E

SCOPED = [("set", "@v", "9"), ("set", "@@v", "8"), ("set", "@w", "7"), ("set", "@@u", "6"), ("set", "@new", "5"), ("rm", "@v", None),
          ("rm", "@@v", None), ("rm", "@w", None), ("rm", "@@u", None), ("set", "@@@x", "1"), ("rm", "@@@x", None), ("set", "@v.k", "1"),
          ("rm", "@new", None), ("set", "a", "3")]


def scripts(tier):
    docs = [(d, t) for d, t in E.documents(tier) if d.split("/")[1] in ("flat", "attrpath", "comments", "inline")]
    n = 2 if tier == "quick" else 3
    for d, t in docs:
        for combo in itertools.product(SCOPED, repeat=n):
            yield (d, t, list(combo))


def run(tier, seed):
    single = E.run_edits("C05", tier, seed, case_filter=lambda c: c[3].startswith("@"))
    seq = E.run_scripts("C05", list(scripts(tier)),
                        "sequences of %d scoped/unscoped edits (14-operation alphabet incl. depths 1-3, a name bound in two layers, layer "
                        "creation and pruning) on every wrapper x 4 contents; after every step let layers and attribute tree read from the "
                        "output CST must equal the layer model" % (2 if tier == "quick" else 3))
    text = E.run_edits("C09", tier, seed, case_filter=lambda c: c[3].startswith("@"))
    r = E.merge(single, seq, text)
    for v in r["violations"]:
        v["what"] = v["what"].replace("C05", "C09", 1)
    return r


def replay(v):
    if "script" in v["inputs"]:
        return E.replay_script("C05", v)
    if "text outside" in v.get("what", "") or "changed-text" in v.get("signature", ""):
        return E.replay_edit("C09", v)
    return E.replay_edit("C05", v)
