"""Bounded stand-in for C05 (see bounded/edits.py)."""
import itertools

from bounded import edits as E

SCRIPT_OPS = [("set", "a", "2"), ("set", "z", '"s"'), ("set", "m.x", "5"), ("set", "m.z", "7"), ("set", "n.p", "{ k = 1; }"),
              ("rm", "a", None), ("rm", "m.x", None), ("rm", "m.y", None), ("rm", "z", None), ("rm", "m", None), ("set", "@v", "9"),
              ("rm", "@v", None), ("set", "a.b", "1"), ("rm", "b.enable", None), ("set", "c.enable", "true"), ("rm", "@w.v", None)]


def scripts(tier):
    docs = [(d, t) for d, t in E.documents(tier) if d.split("/")[1] in ("flat", "nested", "attrpath", "comments", "attrpath-deep")
            and d.split("/")[0] in ("bare", "lambda-let", "let2", "with", "lambda-call")]
    docs += [(d, t) for d, t in E.documents(tier) if d in ("bare/twins", "let-twins/twins", "let-twins/flat", "bare/twins-inline")]
    n = 2 if tier == "quick" else 3
    for d, t in docs:
        for combo in itertools.product(SCRIPT_OPS, repeat=n):
            yield (d, t, list(combo))


def comment_values():
    """A value that carries a comment is still exactly one well-formed expression: the emitted text must parse, whatever the layout
    of the set it is written into."""
    from bounded import nixgen as G
    from nix_manipulator import parse
    from nix_manipulator.cli.manipulations import set_value

    vio = []
    n = 0
    for dname, text in (("one-line", "{ a = 1; }\n"), ("multi-line", "{\n  a = 1;\n  b = 2;\n}\n"), ("one-line-let", "let v = 1; in { a = v; }\n")):
        for value in ("1 # c", "1 # c\n", "/* c */ 1", "1 /* c */"):
            for path in ("a", "z"):
                n += 1
                try:
                    out = set_value(parse(text), path, value)
                except (KeyError, ValueError):
                    continue
                if G.parse_cst(out).has_error:
                    kind = "line" if "#" in value else "block"
                    vio.append(dict(check="comment-values", signature=f"output-has-syntax-error|value with a {kind} comment|{dname} set",
                                    what=f"C05 output-has-syntax-error: set {path} {value!r} on {text!r} gives {out!r}", has_input=True,
                                    inputs={"commentvalue": [text, path, value]},
                                    failing_input={"inputs": {"text": text, "op": "set", "path": path, "value": value}, "observed": out, "origin": "bounded enumeration"}))
    seen = {}
    for v in vio:
        seen.setdefault(v["signature"], v)
    return dict(evaluations=n, distinct_nontrivial=n, rule="4 comment-carrying values x 3 documents x 2 paths: the emitted text parses",
                samples=[], exhaustive=True, violations=list(seen.values()), seconds=0.0)


def run(tier, seed):
    single = E.merge(E.run_edits("C05", tier, seed), comment_values())
    seq = E.run_scripts("C05", list(scripts(tier)),
                        "sequences of %d edits from a 13-operation alphabet on 25 documents, applied to one document object; after every step the "
                        "attribute tree and let layers read from the output CST must equal the reference model's state" % (2 if tier == "quick" else 3))
    return E.merge(single, seq)


def replay(v):
    if "commentvalue" in v["inputs"]:
        hit = [x for x in comment_values()["violations"] if x["signature"] == v.get("signature")]
        print(hit[:1] or "not reproduced")
        if hit:
            print("VIOLATION property=C05 replay=<given>")
            return 1
        return 0
    if "script" in v["inputs"]:
        return E.replay_script("C05", v)
    return E.replay_edit("C05", v)
