"""Bounded stand-in for C05 (see bounded/edits.py)."""
import itertools

from bounded import edits as E

SCRIPT_OPS = [("set", "a", "2"), ("set", "z", '"s"'), ("set", "m.x", "5"), ("set", "m.z", "7"), ("set", "n.p", "{ k = 1; }"),
              ("rm", "a", None), ("rm", "m.x", None), ("rm", "m.y", None), ("rm", "z", None), ("rm", "m", None), ("set", "@v", "9"),
              ("rm", "@v", None), ("set", "a.b", "1"), ("rm", "b.enable", None), ("set", "c.enable", "true"), ("rm", "@w.v", None)]


def scripts(tier):
    docs = [(d, t) for d, t in E.documents(tier) if d.split("/")[1] in ("flat", "nested", "attrpath", "comments", "attrpath-deep")
            and d.split("/")[0] in ("bare", "lambda-let", "let2", "with", "lambda-call")]
    docs += [(d, t) for d, t in E.documents(tier) if d in ("bare/twins", "let-twins/twins", "let-twins/flat", "bare/twins-inline")]
    n = 2 if tier == "quick" else 3
    for d, t in docs:
        for combo in itertools.product(SCRIPT_OPS, repeat=n):
            yield (d, t, list(combo))


def run(tier, seed):
    single = E.run_edits("C05", tier, seed)
    seq = E.run_scripts("C05", list(scripts(tier)),
                        "sequences of %d edits from a 13-operation alphabet on 25 documents, applied to one document object; after every step the "
                        "attribute tree and let layers read from the output CST must equal the reference model's state" % (2 if tier == "quick" else 3))
    return E.merge(single, seq)


def replay(v):
    if "script" in v["inputs"]:
        return E.replay_script("C05", v)
    return E.replay_edit("C05", v)
