"""Bounded stand-in for C06: fixed point of rebuilt text (roundtrip programs) and of the text emitted by
successful edits (bounded/edits.py)."""
from bounded import edits as E
from bounded.roundtrip import replay_roundtrip, run_roundtrip


def run(tier, seed):
    return E.merge(run_roundtrip("C06", tier, seed), E.run_edits("C06", tier, seed))


def replay(v):
    if "op" in v["inputs"]:
        return E.replay_edit("C06", v)
    return replay_roundtrip("C06", v)
