"""Bounded stand-in for C13: Python values handed to the construction API render to Nix text that an
independent CST reader decodes back to the same value; rendering is deterministic and stable."""
from __future__ import annotations

import itertools
import math
import multiprocessing as mp
import time

from bounded import nixgen as G
from specs.nixlex import DQ_D, DQ_N, DQ_R, dq_decode, dq_state

STR_ALPHABET = ["a", '"', "\\", "$", "{", "}", "\n", "\r", "\t", " ", "é", "'", "#", "\x00", "\x7f",
                # control characters that C / JSON have escapes for but Nix does not (a backslash before them means the letter)
                "\x0c", "\x0b", "\x08", "\x1b"]
INTS = [0, 1, -1, 42, -7, 10 ** 20, -(10 ** 20)]
FLOATS = [0.5, 1.0, -2.5, 3.14, 1e16, 1e-07, 123456.789, -0.0, 0.0, 1e100, 5e-324, -1.0]


def strings(max_len):
    for n in range(max_len + 1):
        for tup in itertools.product(STR_ALPHABET, repeat=n):
            s = "".join(tup)
            if "${" not in s:
                yield s


class Undecodable(Exception):
    pass


def decode(n):
    """Independent reader: CST node -> Python value."""
    t = n.type
    if t == "integer_expression":
        return int(n.text)
    if t == "float_expression":
        return float(n.text)
    if t == "variable_expression":
        x = n.text.decode()
        if x in ("true", "false"):
            return x == "true"
        if x == "null":
            return None
        raise Undecodable(x)
    if t == "string_expression":
        body = n.text.decode("utf-8")[1:-1]
        if any(c.type == "interpolation" for c in n.children):
            raise Undecodable("interpolation")
        if dq_state(body) not in (DQ_N, DQ_D, DQ_R):
            raise Undecodable("string body")
        return dq_decode(body)
    if t == "unary_expression":
        op = n.children[0].type
        v = decode(n.children[-1])
        if op == "-" and isinstance(v, (int, float)) and not isinstance(v, bool):
            return -v
        raise Undecodable("unary")
    if t == "parenthesized_expression":
        return decode(n.child_by_field_name("expression"))
    if t == "list_expression":
        return [decode(c) for c in n.children if c.type not in ("[", "]", "comment")]
    if t in ("attrset_expression", "rec_attrset_expression"):
        out = {}
        for c in n.children:
            if c.type == "binding_set":
                for b in c.children:
                    if b.type != "binding":
                        raise Undecodable("inherit")
                    ap = b.child_by_field_name("attrpath")
                    comps = [x for x in ap.children if x.type != "."]
                    if len(comps) != 1:
                        raise Undecodable("attrpath")
                    name = comps[0].text.decode() if comps[0].type == "identifier" else decode(comps[0])
                    if name in out:
                        raise Undecodable("duplicate")
                    out[name] = decode(b.child_by_field_name("expression"))
        return out
    raise Undecodable(t)


def same(a, b):
    if isinstance(a, float) or isinstance(b, float):
        # numbers keep their value and sign; a float stays a float (1.0 vs 1 are different Nix values)
        return isinstance(a, float) and isinstance(b, float) and a == b and math.copysign(1, a) == math.copysign(1, b)
    if type(a) is not type(b):
        return False
    if isinstance(a, list):
        return len(a) == len(b) and all(same(x, y) for x, y in zip(a, b))
    if isinstance(a, dict):
        return list(a) == list(b) and all(same(a[k], b[k]) for k in a)
    return a == b


def contexts(v):
    """Every container context the value can be handed to (construction API)."""
    yield "binding-value", {"k": v}
    if not isinstance(v, dict):
        yield "list-element", {"k": [v]}
        yield "list-element-2", {"k": [1, v, "z"]}
        yield "nested-list", {"k": [[v]]}
    yield "nested-dict", {"outer": {"inner": v}}
    yield "item-assign", ("assign", v)
    yield "two-bindings", {"a": v, "b": v}
    # re-assignment over a value that Python calls equal (True == 1, 0.0 == -0.0, 1 == 1.0) but that is another Nix value
    for prev in lookalikes(v):
        yield f"item-reassign-over-{prev!r}", ("reassign", prev, v)
        yield f"item-reassign-over-parsed-{prev!r}", ("reassign-parsed", prev, v)


def lookalikes(v):
    if isinstance(v, list):
        alt = [(not x) if isinstance(x, bool) else (bool(x) if x in (0, 1) and isinstance(x, int) else x) for x in v]
        return [alt] if alt != [x for x in v] or any(type(a) is not type(b) for a, b in zip(alt, v)) else []
    if isinstance(v, (dict, str)) or v is None:
        return []
    return [p for p in (0, 1, 0.0, -0.0, 1.0, -1, -1.0, True, False) if p == v and not same(p, v)]


def render(ctx_kind, payload):
    from nix_manipulator.expressions.binding import Binding
    from nix_manipulator.expressions.set import AttributeSet

    if isinstance(payload, tuple) and payload[0] == "reassign":
        s = AttributeSet(values=[Binding(name="k", value=payload[1])])
        s["k"] = payload[2]
        return s.rebuild(), {"k": payload[2]}
    if isinstance(payload, tuple) and payload[0] == "reassign-parsed":
        from nix_manipulator import parse

        doc = parse(AttributeSet(values=[Binding(name="k", value=payload[1])]).rebuild())
        doc["k"] = payload[2]
        return doc.rebuild(), {"k": payload[2]}
    if isinstance(payload, tuple):
        s = AttributeSet(values=[Binding(name="z", value=0)])
        s["k"] = payload[1]
        expected = {"z": 0, "k": payload[1]}
        return s.rebuild(), expected
    return AttributeSet.from_dict(payload).rebuild(), payload


def check_value(v):
    from nix_manipulator import parse

    for kind, payload in contexts(v):
        try:
            text, expected = render(kind, payload)
            text2, _ = render(kind, payload)
        except ValueError as e:
            return kind, f"construction-refuses:{type(e).__name__}"
        except Exception as e:
            return kind, f"render-raises:{type(e).__name__}"
        if text != text2:
            return kind, "rendering-not-deterministic"
        root = G.parse_cst(text)
        if root.has_error:
            return kind, "rendered-text-has-syntax-error"
        kids = [c for c in root.children if c.type != "comment"]
        try:
            back = decode(kids[0])
        except Undecodable as e:
            return kind, f"rendered-text-not-plain-data:{e}"
        if not same(back, expected):
            return kind, "decoded-value-differs"
        try:
            r = parse(text).rebuild()
            if G.parse_cst(r).has_error:
                return kind, "reparse-rebuild-yields-a-syntax-error"
            if parse(r).rebuild() != r:
                return kind, "reparse-rebuild-unstable"
            kids2 = [c for c in G.parse_cst(r).children if c.type != "comment"]
            try:
                if not same(decode(kids2[0]), expected):
                    return kind, "reparse-rebuild-changes-the-value"
            except Undecodable:
                return kind, "reparse-rebuild-not-plain-data"
        except Exception as e:
            return kind, f"reparse-raises:{type(e).__name__}"
    return None


def values(tier):
    for s in strings(2 if tier == "quick" else 3):
        yield ("str", s)
    for i in INTS:
        yield ("int", i)
    for f in FLOATS:
        yield ("float", f)
    for b in (True, False, None):
        yield ("const", b)
    scal = [0, -1, "a", 'q"', True, None, 0.5, "\n"]
    for a in scal:
        for b in scal[:4]:
            yield ("list", [a, b])
    yield ("list", [])
    yield ("list", [[1, [2, [3]]], []])
    for a in scal:
        yield ("dict", {"x": a, "y_1": [a], "z'": {"w": a}})
    yield ("dict", {})
    yield ("dict", {"a": {"b": {"c": {"d": 1}}}})
    yield ("dict", {"l": [{"no": 1}]}) if False else ("dict", {"l": [1, 2, 3, 4, 5, 6, 7, 8, 9, 10]})
    yield ("dict", {"long": ["x" * 40, "y" * 40, "z" * 40]})
    # values that compare/hash equal in Python but are different Nix values, together and in both orders
    for a, b in itertools.permutations([0, 0.0, -0.0, False, 1, 1.0, True, -1, -1.0, "", None], 2):
        yield ("pair", {"first": a, "second": b})
        yield ("pair", {"l": [a, b]})


def _chunk(items):
    bad = []
    for kind, v in items:
        if kind == "pair":
            # history independence: render the components one after the other in this very process first
            for comp in (v.get("first"), v.get("second")) if "first" in v else v["l"]:
                r0 = check_value(comp) if not isinstance(comp, dict) else None
                if r0:
                    bad.append(("after-history", comp, r0[0], r0[1]))
        r = check_value(v)
        if r:
            bad.append((kind, v, r[0], r[1]))
    return len(items), bad


def classify(kind, v):
    if kind == "str" and "\x00" in v:
        return "str[contains NUL]"
    if kind == "str":
        chars = sorted({("NUL" if c == "\x00" else "DEL" if c == "\x7f" else repr(c)) for c in v})
        return "str[" + ",".join(chars) + "]"
    if kind == "float":
        return f"float[{v!r}]"
    if kind in ("pair", "after-history"):
        return f"{kind}[{v!r}]"[:60]
    if kind == "int":
        return "int[negative]" if v < 0 else "int"
    return f"{kind}[{v!r}]"[:80]


def run(tier, seed):
    t0 = time.time()
    items = list(values(tier))
    chunks = [items[i::32] for i in range(32)]
    with mp.get_context("fork").Pool(16) as pool:
        res = pool.map(_chunk, [c for c in chunks if c], chunksize=1)
    n = sum(r[0] for r in res)
    by_sig = {}
    for _, bad in res:
        for kind, v, ctx, sym in bad:
            sig = f"{sym}|{ctx}|{classify(kind, v)}"
            if sig not in by_sig:
                by_sig[sig] = dict(check="values", signature=sig, what=f"C13 {sym} in context {ctx} for value {v!r}", has_input=True,
                                   inputs={"value": repr(v)},
                                   failing_input={"inputs": {"value": repr(v), "context": ctx}, "observed": sym, "origin": "bounded enumeration"})
    return dict(evaluations=n * 7, distinct_nontrivial=n,
                rule=f"every string of length <= {2 if tier == 'quick' else 3} over {len(STR_ALPHABET)} critical characters (without ${{), "
                     "boundary ints, 10 floats, constants, nested lists/dicts (depth <= 4), each in 7 container contexts (binding value, list "
                     "element, nested list/dict, item assignment); text decoded by an independent CST reader",
                samples=[dict(value=repr(items[i][1])) for i in (0, len(items) // 2, -1)],
                exhaustive=True, violations=list(by_sig.values()), seconds=time.time() - t0)


def replay(v):
    val = eval(v["inputs"]["value"], {"inf": float("inf")})
    r = check_value(val)
    print(v["inputs"], "->", r)
    if r:
        print("VIOLATION property=C13 replay=<given>")
        return 1
    return 0
