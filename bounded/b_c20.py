"""Bounded stand-in for C20: (a) parse+rebuild on valid, damaged and arbitrary UTF-8 texts raises only
the documented error types; (b) the number of rebuild() invocations (a deterministic proxy for
time) stays polynomial when the nesting depth of a construct doubles."""
from __future__ import annotations

import multiprocessing as mp
import os
import random
import sys
import time

from bounded import nixgen as G

FAMILIES = {
    "curried-lambda": lambda d: "a: " * d + "x\n",
    "formals-lambda": lambda d: "{ a }: " * d + "x\n",
    "nested-with": lambda d: "with a; " * d + "x\n",
    "nested-assert": lambda d: "assert a; " * d + "x\n",
    "nested-set": lambda d: "{ a = " * d + "1" + "; }" * d + "\n",
    "nested-list": lambda d: "[ " * d + "1" + " ]" * d + "\n",
    "nested-paren": lambda d: "(" * d + "1" + ")" * d + "\n",
    "nested-call": lambda d: "f (" * d + "x" + ")" * d + "\n",
    "nested-call-set": lambda d: "f { a = " * d + "1" + "; }" * d + "\n",
    "plus-chain": lambda d: "a" + " + a" * d + "\n",
    "concat-chain": lambda d: "a" + " ++ a" * d + "\n",
    "nested-let": lambda d: "let a = 1; in " * d + "x\n",
    "nested-if": lambda d: "if a then b else " * d + "x\n",
    "nested-select-default": lambda d: "a.b or (" * d + "x" + ")" * d + "\n",
    "nested-inherit-from": lambda d: "{ inherit (" * d + "x" + ") a; }" * d + "\n",
    "nested-list-in-binding": lambda d: "{ a = [ " * d + "1" + " ]; }" * d + "\n",
    "nested-default": lambda d: "{ a ? " * d + "1" + " }: a" * d + "\n",
    "nested-neg": lambda d: "- " * d + "x\n",
    # the same nestings with the nested part on a line of its own (layout decisions differ for multi-line children)
    "nested-call-newline": lambda d: "f\n(" * d + "x" + ")" * d + "\n",
    "nested-call-list-newline": lambda d: "f\n[ " * d + "x" + " ]" * d + "\n",
    "nested-call-set-newline": lambda d: "f\n{ a = " * d + "1" + "; }" * d + "\n",
    "curried-lambda-newline": lambda d: "a:\n" * d + "x\n",
    "nested-with-newline": lambda d: "with a;\n" * d + "x\n",
    "nested-assert-newline": lambda d: "assert a;\n" * d + "x\n",
    "nested-assert-cond-newline": lambda d: "assert\na;\n" * d + "x\n",
    "impl-chain-newline": lambda d: "a ->\n" * d + "b\n",
    "paren-plus-newline": lambda d: "(a +\n" * d + "b" + ")" * d + "\n",
    "nested-let-newline": lambda d: "let\n  a = 1;\nin\n" * d + "x\n",
    "nested-if-newline": lambda d: "if a then b else\n" * d + "x\n",
    "nested-list-newline": lambda d: "[\n" * d + "1" + "\n]" * d + "\n",
    "nested-set-newline": lambda d: "{\n a =\n" * d + "1" + ";\n}" * d + "\n",
    # the other child positions of the constructs above
    "nested-if-cond": lambda d: "if " * d + "a" + " then b else c" * d + "\n",
    "nested-if-then": lambda d: "if a then " * d + "x" + " else c" * d + "\n",
    "nested-with-env": lambda d: "with (" * d + "a" + "); x" * d + "\n",
    "nested-assert-cond": lambda d: "assert (" * d + "a" + "); x" * d + "\n",
    "nested-let-value": lambda d: "let a = " * d + "1" + "; in a" * d + "\n",
    "apply-chain": lambda d: "f" + " x" * d + "\n",
    "nested-interpolation": lambda d: '"${' * d + "a" + '}"' * d + "\n",
    "nested-select-base": lambda d: "(" * d + "a" + ".b)" * d + "\n",
    "nested-binop-right": lambda d: "a + (" * d + "a" + ")" * d + "\n",
    "nested-has-attr": lambda d: "(" * d + "a" + " ? b)" * d + "\n",
    "nested-list-second": lambda d: "[ 1 " * d + "2" + " ]" * d + "\n",
    # (at most 220 lines: the installed py-tree-sitter corrupts memory for rows > 256, see DESIGN.md 9)
    "long-file": lambda d: "{\n" + "".join(f"  a{i} = {i};\n" for i in range(d * 12)) + "}\n",
}
DOCUMENTED = ("ValueError", "NixSyntaxError")


def _count_calls(text):
    """Number of from_cst() and rebuild() invocations during parse(text).rebuild()."""
    import nix_manipulator.expressions as ex
    from nix_manipulator import parse
    from nix_manipulator.expressions.expression import NixExpression

    counter = [0]
    patched = []

    def all_subclasses(c):
        out = set()
        for s in c.__subclasses__():
            out.add(s)
            out |= all_subclasses(s)
        return out

    # conversions from the CST count as work units too (a child converted twice doubles the parse time per nesting level)
    fc_patched = []
    for cls in all_subclasses(NixExpression) | {NixExpression}:
        fc = cls.__dict__.get("from_cst")
        if isinstance(fc, classmethod):
            def make_fc(o):
                def wrapper(c, *a, **k):
                    counter[0] += 1
                    return o(c, *a, **k)

                return classmethod(wrapper)

            fc_patched.append((cls, fc))
            setattr(cls, "from_cst", make_fc(fc.__func__))
    for cls in all_subclasses(NixExpression) | {NixExpression}:
        if "rebuild" in cls.__dict__:
            orig = cls.__dict__["rebuild"]

            def make(o):
                def wrapper(self, *a, **k):
                    counter[0] += 1
                    return o(self, *a, **k)

                return wrapper

            patched.append((cls, orig))
            setattr(cls, "rebuild", make(orig))
    try:
        src = parse(text)
        src.rebuild()
    finally:
        for cls, orig in patched:
            setattr(cls, "rebuild", orig)
        for cls, orig in fc_patched:
            setattr(cls, "from_cst", orig)
    return counter[0]


# Long runs of one character: time that is exponential in a run length does not show in rebuild-call counts.  Each text is
# parsed and rebuilt in a child process with a generous CPU budget (milliseconds are normal; the budget only trips on blow-up).
def _runs():
    k = 200
    yield "indented-own-line-comment-after-=", "{\n  x =\n" + " " * k + "# why\n    1;\n}\n"
    yield "indented-own-line-comment-in-paren", "(\n" + " " * k + "# why\n  a)\n"
    yield "indented-own-line-comment-before-argument", "f\n" + "\t" * 100 + "# why\n  a\n"
    yield "blank-lines-with-spaces", "{\n  a = 1;\n" + (" " * 30 + "\n") * 6 + "  b = 2;\n}\n"
    yield "many-newlines", "a" + "\n" * k + "+ b\n"
    yield "long-comment-line", "# " + "x " * 100 + "\na\n"
    yield "long-string", '"' + "ab\\n${c}" * 25 + '"\n'
    yield "crlf-run", "{ a = 1;" + "\r\n" * 100 + "}\n"
    yield "spaces-before-semicolon", "{ a = 1" + " " * k + "; }\n"
    yield "nested-block-comment-stars", "/*" + "*" * k + "*/ a\n"


_RUN_CHILD = """
import sys, time
from nix_manipulator import parse
t = open(sys.argv[1], encoding='utf-8', newline='').read()
c0 = time.process_time()
try:
    parse(t).rebuild()
except ValueError:
    pass
print(time.process_time() - c0)
"""


def _run_budget(item):
    import subprocess
    import tempfile

    name, text = item
    with tempfile.NamedTemporaryFile("w", suffix=".nix", delete=False, encoding="utf-8", newline="") as fh:
        fh.write(text)
        path = fh.name
    try:
        env = dict(os.environ, PYTHONPATH=os.environ.get("NIMA_REPO", "/repo"))
        try:
            r = subprocess.run([sys.executable, "-c", _RUN_CHILD, path], capture_output=True, text=True, timeout=60, env=env)
        except subprocess.TimeoutExpired:
            return name, text, None, "no result within 60 s"
        if r.returncode != 0:
            return name, text, None, "child failed: " + r.stderr.strip().splitlines()[-1][:120] if r.stderr.strip() else "child failed"
        return name, text, float(r.stdout.strip().splitlines()[-1]), None
    finally:
        os.unlink(path)


def _cost(args):
    name, d = args
    import sys

    sys.setrecursionlimit(10000)
    gen = FAMILIES[name]
    # stay inside what the installed py-tree-sitter handles safely (no Point coordinate above 256, see DESIGN.md 9)
    while d > 2 and (gen(2 * d).count("\n") > 240 or max(len(x) for x in gen(2 * d).split("\n")) > 240):
        d -= 1
    try:
        c1 = _count_calls(gen(d))
        c2 = _count_calls(gen(2 * d))
    except (ValueError, SyntaxError) as e:
        return name, d, None, None, f"refused:{type(e).__name__}"
    except RecursionError:
        return name, d, None, None, "recursion"
    return name, d, c1, c2, None


def _exc_chunk(chunk):
    from nix_manipulator import parse

    bad = []
    n = 0
    for p in chunk:
        t = p["text"]
        n += 1
        try:
            parse(t).rebuild()
        except Exception as e:
            if type(e).__name__ in DOCUMENTED or isinstance(e, ValueError):
                continue
            bad.append((p, f"internal-error:{type(e).__name__}"))
    return n, bad


def utf8_texts(seed, n):
    rnd = random.Random(seed)
    alphabet = list("{}[]()=;:.,?@!-+*/<>&|\"'$\\# \n\tabz019_") + ["''", "${", "é", "√", " ", "\x0b", "let ", "in ", "with ", "inherit ",
                                                                          "rec ", "if ", "then ", "else ", "assert ", "or ", "/*", "*/"]
    for i in range(n):
        k = rnd.randint(1, 24)
        yield dict(id=f"utf8|{i}", text="".join(rnd.choice(alphabet) for _ in range(k)), template="utf8", kind="utf8")


def run(tier, seed):
    t0 = time.time()
    progs = [dict(p) for p in G.programs("quick", seed)]
    progs += list(G.faults(tier))
    progs += list(utf8_texts(seed, 20000 if tier == "quick" else 300000))
    chunks = [progs[i::64] for i in range(64)]
    depth = 7 if tier == "quick" else 9
    with mp.get_context("fork").Pool(16) as pool:
        res = pool.map(_exc_chunk, [c for c in chunks if c], chunksize=1)
        costs = pool.map(_cost, [(name, depth) for name in FAMILIES], chunksize=1)
        budgets = pool.map(_run_budget, list(_runs()), chunksize=1)
    n = sum(r[0] for r in res)
    by_sig = {}
    for _, bad in res:
        for p, sym in bad:
            sig = f"{sym}|{p.get('template')}|{p.get('kind', G.filler_class(p.get('filler')))}"
            if p.get("ctx"):
                sig = G.signature(p, sym)
            if sig not in by_sig:
                by_sig[sig] = dict(check="exceptions", signature=sig, what=f"C20 {sym} on {p['text']!r}", inputs={"text": p["text"]},
                                   has_input=True, failing_input={"inputs": {"text": p["text"]}, "observed": sym, "origin": "bounded enumeration"})
    for name, text, secs, err in budgets:
        if err is not None or secs > 10.0:
            sig = f"time-budget-exceeded|{name}"
            by_sig[sig] = dict(check="time", signature=sig, has_input=True, inputs={"run": name},
                               what=f"C20 parse+rebuild of a {len(text)}-character text with a long run ({name}): " + (err or f"{secs:.1f} s CPU (normal: milliseconds)"),
                               failing_input={"inputs": {"text": text}, "observed": err or f"{secs:.1f} s CPU", "origin": "long-run family"})
    cost_rows = []
    for name, d, c1, c2, err in costs:
        cost_rows.append(dict(family=name, depth=d, calls_d=c1, calls_2d=c2, note=err))
        if err is None and c1 and c2 / c1 > 8.0:
            sig = f"superpolynomial-rebuild-calls|{name}"
            by_sig[sig] = dict(check="cost", signature=sig, has_input=True,
                               what=f"C20 from_cst() + rebuild() invocations grow from {c1} (depth {d}) to {c2} (depth {2 * d}) on family {name}: ratio {c2 / c1:.1f} > 8",
                               inputs={"family": name, "depth": d},
                               failing_input={"inputs": {"text": FAMILIES[name](2 * d)}, "observed": f"{c1} -> {c2} rebuild calls", "origin": "depth family"})
    return dict(evaluations=n + 2 * len(FAMILIES), distinct_nontrivial=len({p["text"] for p in progs}) + len(FAMILIES),
                rule=("exception types of parse(t).rebuild() over all nixgen programs, the fault enumeration and seeded UTF-8 token soup "
                      "(only ValueError / NixSyntaxError may escape); rebuild()-call counts at depth d and 2d on "
                      f"{len(FAMILIES)} nesting families (ratio must stay <= 8, i.e. at most cubic)"),
                samples=[dict(text=progs[-1]["text"]), dict(cost=cost_rows[0]), dict(cost=cost_rows[1])],
                exhaustive=False, violations=list(by_sig.values()), seconds=time.time() - t0, cost_table=cost_rows)


def replay(v):
    from nix_manipulator import parse

    if v.get("check") == "time":
        item = [it for it in _runs() if it[0] == v["inputs"]["run"]][0]
        name, text, secs, err = _run_budget(item)
        print(name, secs, err)
        if err is not None or secs > 10.0:
            print("VIOLATION property=C20 replay=<given>")
            return 1
        return 0
    if v.get("check") == "cost":
        name, d = v["inputs"]["family"], v["inputs"]["depth"]
        c1, c2 = _count_calls(FAMILIES[name](d)), _count_calls(FAMILIES[name](2 * d))
        print(f"{name}: {c1} -> {c2} rebuild calls")
        if c2 / c1 > 8:
            print("VIOLATION property=C20 replay=<given>")
            return 1
        return 0
    t = v["inputs"]["text"]
    try:
        parse(t).rebuild()
    except Exception as e:
        print(repr(t), "->", type(e).__name__, e)
        if type(e).__name__ not in DOCUMENTED and not isinstance(e, ValueError):
            print("VIOLATION property=C20 replay=<given>")
            return 1
    return 0
