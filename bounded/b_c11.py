"""Bounded stand-in for C11: `set` through a reference replaces exactly the defining binding.

Documents are built from a description of nested scopes, so the defining binding (by Nix lexical
scoping) is known by construction: it carries the marker value "OLD", every other binding of the
same name carries a different marker.  Expected output = input with the one marker replaced; when
the name is bound nowhere, the binding at the path itself is overwritten."""
from __future__ import annotations

import multiprocessing as mp
import time

from bounded import nixgen as G

NEW = '"NEW"'


def cases(tier):
    """(id, text, path, expected_text)"""
    D = '"OLD"'
    yield "let", f"let\n  v = {D};\nin\n{{\n  version = v;\n}}\n", "version", None
    yield "let-shadow", f"let\n  v = \"OUTER\";\nin\nlet\n  v = {D};\nin\n{{\n  version = v;\n}}\n", "version", None
    yield "let-outer-only", f"let\n  v = {D};\nin\nlet\n  w = 1;\nin\n{{\n  version = v;\n}}\n", "version", None
    yield "rec-sibling", f"rec {{\n  v = {D};\n  version = v;\n}}\n", "version", None
    yield "rec-over-let", f"let\n  v = \"OUTER\";\nin\nrec {{\n  v = {D};\n  version = v;\n}}\n", "version", None
    yield "plain-sibling-not-a-scope", f"let\n  v = {D};\nin\n{{\n  v = \"SIB\";\n  version = v;\n}}\n", "version", None
    yield "chain", f"let\n  v = {D};\n  w = v;\nin\n{{\n  version = w;\n}}\n", "version", None
    yield "chain-3", f"let\n  u = {D};\n  v = u;\n  w = v;\nin\n{{\n  version = w;\n}}\n", "version", None
    # chains that cross scope levels with shadowing: every hop resolves in the scope of the binding it came from
    yield "chain-outer-hop-shadowed", f"let\n  a = {D};\n  b = a;\nin\nlet\n  a = \"INNER\";\nin\n{{\n  version = b;\n}}\n", "version", None
    yield "chain-outer-hop-shadowed-rec", f"let\n  a = {D};\n  b = a;\nin\nrec {{\n  a = \"INNER\";\n  version = b;\n}}\n", "version", None
    yield "chain-3-levels", f"let\n  a = {D};\n  b = a;\nin\nlet\n  a = \"MID\";\n  c = b;\nin\nlet\n  a = \"INNER\";\n  b = \"B\";\nin\n{{\n  version = c;\n}}\n", "version", None
    yield "twin-layers", 'let\n  v = "1";\nin\nlet\n  v = "OLD";\nin\n{\n  version = v;\n}\n'.replace('"1"', '"OLD"').replace('v = "OLD";\nin\nlet', 'v = "OUT";\nin\nlet'), "version", None
    # a shadowing layer that is structurally equal to an enclosing one is still the defining one (identity, not equality)
    yield ("equal-layers", 'let\n  v = "OLD";\nin\nlet\n  v = "OLD";\nin\n{\n  version = v;\n}\n', "version",
           'let\n  v = "OLD";\nin\nlet\n  v = "NEW";\nin\n{\n  version = v;\n}\n')
    yield ("equal-layers-3", 'let\n  v = "OLD";\n  w = 1;\nin\nlet\n  u = 0;\nin\nlet\n  v = "OLD";\n  w = 1;\nin\n{\n  version = v;\n}\n', "version",
           'let\n  v = "OLD";\n  w = 1;\nin\nlet\n  u = 0;\nin\nlet\n  v = "NEW";\n  w = 1;\nin\n{\n  version = v;\n}\n')
    yield ("equal-layers-rec", 'let\n  v = "OLD";\nin\nlet\n  v = "OLD";\nin\nrec {\n  alias = v;\n  version = alias;\n}\n', "version",
           'let\n  v = "OLD";\nin\nlet\n  v = "NEW";\nin\nrec {\n  alias = v;\n  version = alias;\n}\n')
    yield "lambda-let", f"{{ pkgs }}:\nlet\n  v = {D};\nin\n{{\n  version = v;\n}}\n", "version", None
    yield "lambda-let-call", f"{{ pkgs }}:\nlet\n  v = {D};\nin\npkgs.mkDerivation {{\n  version = v;\n}}\n", "version", None
    yield "nested-path", f"let\n  v = {D};\nin\n{{\n  meta = {{\n    version = v;\n  }};\n}}\n", "meta.version", None
    yield "with-env", f"with {{\n  v = {D};\n}};\n{{\n  version = v;\n}}\n", "version", None
    yield "let-beats-with", f"let\n  v = {D};\nin\nwith {{\n  v = \"WITH\";\n}};\n{{\n  version = v;\n}}\n", "version", None
    yield "inherit-let", f"let\n  v = {D};\nin\n{{\n  inherit v;\n  version = v;\n}}\n", "version", None
    # the edited set is itself reached through a name, from below a layer (or a `with`) that binds the referenced name again:
    # the reference inside the set sees the scope where the set is written, not the one where it is used
    yield "target-by-name-inner-shadow", f"let\n  v = {D};\n  args = {{\n    pname = \"demo\";\n    version = v;\n  }};\nin\nlet\n  v = \"2\";\nin\nmk args\n", "version", None
    yield "bare-target-chain-inner-shadow", f"let\n  v = {D};\n  ver = v;\n  args = {{\n    version = ver;\n  }};\nin\nlet\n  v = \"2\";\n  other = v;\nin\nargs\n", "version", None
    yield "target-by-name-with-env", f"let\n  v = {D};\n  args = {{\n    version = v;\n  }};\nin\nwith {{ v = \"2\"; }};\nmk args\n", "version", None
    yield "target-by-name-twice", f"let\n  v = {D};\n  args = {{\n    version = v;\n  }};\nin\nlet\n  v = \"2\";\nin\nmk args\n", "version;version", None
    # a let alias whose own value names something the rec set below shadows
    yield "let-alias-into-rec-shadow", f"let\n  release = version;\n  version = {D};\nin\nrec {{\n  version = \"LOCAL\";\n  tag = release;\n}}\n", "tag", None
    # the edited set is reached through a name that an outer let binds as well, with a lambda / assert / parenthesis between the
    # two lets: the innermost enclosing binding of the name is the one Nix designates
    for mid, (o, c) in {"lambda": ("{ pkgs }:\n", ""), "assert": ("assert true;\n", ""), "paren": ("(\n", ")\n")}.items():
        yield (f"target-name-rebound-under-{mid}",
               f"let\n  args = {{\n    version = \"OUTER\";\n  }};\nin\n{o}let\n  args = {{\n    version = {D};\n  }};\nin\npkgs.mk args\n{c}", "version", None)
    yield ("target-name-rebound-bare-body",
           f"let\n  args = {{\n    version = \"OUTER\";\n  }};\nin\n{{ pkgs }}:\nlet\n  args = {{\n    version = {D};\n  }};\nin\nargs\n", "version", None)
    # ... and directly: the set reached through a bare name / below a `with`, the referenced name rebound between definition and use
    yield "bare-target-inner-shadow", f"let\n  v = {D};\n  cfg = {{\n    version = v;\n  }};\nin\nlet\n  v = \"1\";\nin\ncfg\n", "version", None
    yield "bare-target-inner-with", f"let\n  v = {D};\n  cfg = {{\n    version = v;\n  }};\nin\nwith {{ v = \"1\"; }};\ncfg\n", "version", None
    yield "bare-target-inner-shadow-twice", f"let\n  v = {D};\n  cfg = {{\n    version = v;\n  }};\nin\nlet\n  v = \"1\";\nin\ncfg\n", "version;version", None
    yield "unbound", "{\n  version = v;\n}\n", "version", "{\n  version = \"NEW\";\n}\n"
    yield "unbound-in-let", "let\n  w = 1;\nin\n{\n  version = v;\n}\n", "version", "let\n  w = 1;\nin\n{\n  version = \"NEW\";\n}\n"
    yield "formal-not-editable", "{ v }:\n{\n  version = v;\n}\n", "version", "{ v }:\n{\n  version = \"NEW\";\n}\n"
    # sequences: the second edit goes through the same reference again
    yield "twice", f"let\n  v = {D};\nin\n{{\n  version = v;\n}}\n", "version;version", None


def eval_case(item):
    from nix_manipulator import parse
    from nix_manipulator.cli.manipulations import set_value

    cid, text, path, expected = item
    if G.parse_cst(text).has_error:
        return "harness:document-does-not-parse"
    if expected is None:
        expected = text.replace('"OLD"', '"NEW"')
    src = parse(text)
    out = None
    try:
        for p in path.split(";"):
            out = set_value(src, p, NEW)
    except Exception as e:
        return f"raises:{type(e).__name__}"
    if out != expected:
        if 'version = "NEW"' in out and 'version = "NEW"' not in expected:
            return "the-reference-itself-was-overwritten"
        if '"OLD"' in out and "NEW" in out:
            return "another-binding-was-changed"
        return "unexpected-output"
    return None


def run_single(tier, seed):
    """Only the constructed single-edit cases (also used by C04)."""
    return run(tier, seed, histories=False)


def run(tier, seed, histories=True):
    t0 = time.time()
    items = list(cases(tier))
    with mp.get_context("fork").Pool(8) as pool:
        res = pool.map(eval_case, items, chunksize=1)
    vio = []
    for it, sym in zip(items, res):
        if sym and sym.startswith("harness"):
            raise RuntimeError(f"{sym}: {it[0]}")
        if sym:
            vio.append(dict(check="references", signature=f"{sym}|{it[0]}", what=f"C11 {sym} for case {it[0]} (set {it[2]} {NEW})", has_input=True,
                            inputs={"case": it[0], "text": it[1], "path": it[2]},
                            failing_input={"inputs": {"text": it[1], "path": it[2], "value": NEW}, "observed": sym, "origin": "bounded enumeration"}))
    from bounded import livefresh
    from bounded.edits import merge

    if not histories:
        return _single(items, vio, t0)
    return merge(_single(items, vio, t0), livefresh.run("C11", tier, seed))


def _single(items, vio, t0):
    return dict(evaluations=len(items), distinct_nontrivial=len(items),
                rule="documents built from a description of nested scopes (let layers with shadowing, rec set, plain sibling, with "
                     "environment, inherit, chains of references, unbound names, formals); the defining binding is known by construction; "
                     "expected output = input with that one value replaced",
                samples=[dict(case=i[0], text=i[1]) for i in items[:3]], exhaustive=True, violations=vio, seconds=time.time() - t0)


def replay(v):
    if v.get("check") == "live-vs-fresh" or "ops" in v["inputs"]:
        from bounded import livefresh

        return livefresh.replay("C11", v)
    for it in cases("quick"):
        if it[0] == v["inputs"]["case"]:
            sym = eval_case(it)
            print(it[0], "->", sym)
            if sym:
                print("VIOLATION property=C11 replay=<given>")
                return 1
    return 0
