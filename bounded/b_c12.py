"""Bounded stand-in for the end-to-end part of C12: for every attribute name over a critical alphabet,
`set` writes a name that an independent Nix string decoder (specs/nixlex.py) reads back as exactly that
string, the path is split only at unquoted dots, a second `set` with the same path updates that same
binding (never a second definition) and `rm` removes it.  The character-level functions themselves
(_parse_npath, _format_attr_name, _escape_nix_string) are *proved* (contracts); this check adds the
composition with the library's own re-reading of what it wrote (binding.py:_split_attrpath, lookups),
which is outside the verifier's reach.  Bounded: names up to length 4 (5) over 11 characters, 3 documents,
2 positions of the name in the path."""
from __future__ import annotations

import itertools
import multiprocessing as mp
import time

from bounded import readers as RD

ALPHABET = ["a", "b", ".", '"', "\\", "$", "{", "}", " ", "-", "\n"]
EXTRA = ["a@b", "@", "@types/node", "x@", "${", "${a}", "a${", "}${", "\\${", "$${", "''", "a.b", ".", "..", "if", "let", "1a", "a'", "_", "é", "a\tb", "\r", "\\n"]
DOCS = {
    "plain": "{\n  k = 0;\n}\n",
    "attrpath-family": "{\n  x.q = 0;\n  k = 0;\n}\n",
    "let-layer": "let\n  v = 1;\nin\n{\n  k = 0;\n}\n",
    # an attrpath family whose root is itself a quoted name with a dot in it
    "quoted-family": "{\n  \"a.b\".q = 0;\n  k = 0;\n}\n",
}


def segment(name: str) -> str:
    """NPath spelling of one attribute name (docs/cli.md): bare identifiers as they are, anything else quoted."""
    import re

    if re.fullmatch(r"[A-Za-z_][A-Za-z0-9_']*", name) and name not in ("if", "then", "else", "let", "in", "with", "rec", "inherit", "assert", "or"):
        return name
    esc = name.replace("\\", "\\\\").replace('"', '\\"').replace("\n", "\\n").replace("\r", "\\r").replace("\t", "\\t")
    return '"' + esc + '"'


def names(tier):
    n = 4 if tier == "quick" else 5
    seen = set()
    for k in range(0, n + 1):
        if k == n and tier == "quick":
            # length 4: only names that contain at least one of the critical characters $ { } \ " .
            pass
        for combo in itertools.product(ALPHABET, repeat=k):
            s = "".join(combo)
            if k >= 4 and not any(c in s for c in '${}\\".'):
                continue
            if s not in seen:
                seen.add(s)
                yield s
    for s in EXTRA:
        if s not in seen:
            seen.add(s)
            yield s


def lookup(tree, path):
    t = tree
    for nm in path:
        if not isinstance(t, dict) or nm not in t:
            return None
        t = t[nm]
    return t


def eval_case(item):
    from nix_manipulator import parse
    from nix_manipulator.cli.manipulations import remove_value, set_value

    doc, name, shape = item
    text = DOCS[doc]
    seg = segment(name)
    if shape == "single":
        npath, names_ = seg, [name]
    elif shape == "under-x":
        npath, names_ = "x." + seg, ["x", name]
    elif shape == "under-quoted-root":
        npath, names_ = '"a.b".' + seg, ["a.b", name]
    elif shape == "quoted-pair":
        npath, names_ = seg + '."c.d"', [name, "c.d"]
    else:
        npath, names_ = seg + ".y", [name, "y"]
    if doc == "let-layer" and shape == "single":
        npath = "@" + npath

    def tree_of(out):
        err, tree, layers = RD.read_document(out)
        if err or tree is None:
            return None
        return layers[-1] if npath.startswith("@") and layers else tree

    try:
        out1 = set_value(parse(text), npath, "1")
    except (ValueError, KeyError) as e:
        return f"set-refused:{type(e).__name__}"
    except Exception as e:
        return f"set-raises:{type(e).__name__}"
    try:
        t1 = tree_of(out1)
    except RD.Dup:
        return "first-set-defines-an-attribute-twice"
    if t1 is None:
        return "output-does-not-parse"
    if lookup(t1, names_) != "1":
        return "name-written-is-not-read-back-as-the-requested-string"
    try:
        out2 = set_value(parse(out1), npath, "2")
    except Exception as e:
        return f"second-set-raises:{type(e).__name__}"
    try:
        t2 = tree_of(out2)
    except RD.Dup:
        return "second-set-creates-a-second-definition"
    if t2 is None:
        return "second-output-does-not-parse"
    if lookup(t2, names_) != "2":
        return "second-set-did-not-find-the-binding"
    try:
        out3 = remove_value(parse(out2), npath)
    except Exception as e:
        return f"rm-raises:{type(e).__name__}"
    try:
        t3 = tree_of(out3)
    except RD.Dup:
        return "rm-leaves-a-duplicate"
    if t3 is None:
        if npath.startswith("@"):
            return None  # the emptied layer was pruned: nothing to look up
        return "third-output-does-not-parse"
    if lookup(t3, names_) is not None:
        return "rm-did-not-remove-the-binding"
    return None


UNICODE_NAMES = ["e\u0301", "\u00e9", "A\u030a", "\u2126", "\u1112\u1161\u11ab", "a\u00a0", "\u00a0a", "\ufb01", "\u0130", "\u212a", " a", "a ", "a\u200b"]


def cli_case(name):
    """The CLI hands the path to the library unchanged: `nima set <path> 1` prints what set_value gives for that very path."""
    import contextlib
    import io
    import sys

    from nix_manipulator import parse
    from nix_manipulator.cli.main import main
    from nix_manipulator.cli.manipulations import set_value

    bad = []
    for doc, text in (("plain", DOCS["plain"]), ("holds-the-name", "{\n  " + segment(name) + " = 0;\n  k = 0;\n}\n")):
        npath = segment(name)
        try:
            want = set_value(parse(text), npath, "1")
            want = (0, want if want.endswith("\n") else want + "\n")
        except Exception:
            want = ("nonzero", "")
        old_stdin = sys.stdin
        sys.stdin = io.StringIO(text)
        out = io.StringIO()
        try:
            with contextlib.redirect_stdout(out), contextlib.redirect_stderr(io.StringIO()):
                rc = main(["set", npath, "1"])
        except SystemExit as e:
            rc = e.code if isinstance(e.code, int) else 1
        except Exception:
            rc = 1
        finally:
            sys.stdin = old_stdin
        got = (0 if rc == 0 else "nonzero", out.getvalue())
        if got != want:
            bad.append(f"cli-edits-another-path-than-the-one-given|{doc}")
    return bad


SPELLINGS = [
    # (what the file says, path segment, decoded name)
    ("a", '"a"', "a"), ('"a"', "a", "a"), ("foo-bar", '"foo-bar"', "foo-bar"), ("a'", '"a\'"', "a'"), ('"_x1"', "_x1", "_x1"), ("x1", '"x1"', "x1"),
]


def spelling_case(item):
    """Spellings that Nix reads as the same name denote one attribute: an edit never creates a second definition."""
    from nix_manipulator import parse
    from nix_manipulator.cli.manipulations import remove_value, set_value

    in_file, seg, name = item
    text = "{\n  " + in_file + " = 0;\n  k = 0;\n}\n"
    bad = []
    try:
        out = set_value(parse(text), seg, "1")
        try:
            err, tree, _ = RD.read_document(out)
            if err or tree is None:
                bad.append("output-does-not-parse")
            elif tree.get(name) != "1":
                bad.append("set-through-the-other-spelling-does-not-update-the-attribute")
        except RD.Dup:
            bad.append("set-through-the-other-spelling-creates-a-second-definition")
    except Exception as e:
        bad.append(f"set-through-the-other-spelling-refused:{type(e).__name__}")
    try:
        out = remove_value(parse(text), seg)
        err, tree, _ = RD.read_document(out)
        if not err and tree is not None and name in tree:
            bad.append("rm-through-the-other-spelling-leaves-the-attribute")
    except Exception as e:
        bad.append(f"rm-through-the-other-spelling-refused:{type(e).__name__}")
    return bad


def run(tier, seed):
    t0 = time.time()
    nm = list(names(tier))
    items = [(d, n, s) for n in nm for d, s in (("plain", "single"), ("attrpath-family", "under-x"), ("plain", "parent"), ("let-layer", "single"),
                                                          ("plain", "quoted-pair"), ("quoted-family", "under-quoted-root"))]
    cli_names = [n for n in nm if len(n) <= 2] + EXTRA + UNICODE_NAMES
    with mp.get_context("fork").Pool(16) as pool:
        res = pool.map(eval_case, items, chunksize=256)
        cres = pool.map(cli_case, cli_names, chunksize=16)
        sres = pool.map(spelling_case, SPELLINGS, chunksize=1)
    vio = {}
    for it_, bad in zip(SPELLINGS, sres):
        for b in bad:
            kind = "file spells the name quoted, path bare" if it_[0].startswith('"') else "file spells the name bare, path quoted"
            sig = f"{b}|{kind}"
            vio.setdefault(sig, dict(check="names-spelling", signature=sig, what=f"C12 {b}: file has `{it_[0]} = 0;`, path segment {it_[1]}", has_input=True,
                                     inputs={"spelling": list(it_)}, failing_input={"inputs": {"text": "{\n  " + it_[0] + " = 0;\n  k = 0;\n}\n", "path": it_[1]}, "observed": b, "origin": "bounded enumeration"}))
    for n_, bad in zip(cli_names, cres):
        for b in bad:
            sig = f"{b}|name={n_!r}"
            vio[sig] = dict(check="names-cli", signature=sig, what=f"C12 {b}: attribute name {n_!r} through `nima set`", has_input=True,
                            inputs={"cli_name": n_}, failing_input={"inputs": {"name": n_, "argv": ["set", segment(n_), "1"]}, "observed": b, "origin": "bounded enumeration"})
    for it, sym in zip(items, res):
        if not sym:
            continue
        cls = "".join(sorted({c if c in '${}\\". \n-' else "x" for c in it[1]}))
        sig = f"{sym}|chars={cls!r}|{it[2]}|{it[0]}"
        if sig not in vio:
            vio[sig] = dict(check="names", signature=sig, what=f"C12 {sym}: attribute name {it[1]!r} ({it[2]} on {it[0]})", has_input=True,
                            inputs={"doc": it[0], "name": it[1], "shape": it[2]},
                            failing_input={"inputs": {"text": DOCS[it[0]], "name": it[1], "shape": it[2]}, "observed": sym, "origin": "bounded enumeration"})
    return dict(evaluations=len(items) + 2 * len(cli_names), distinct_nontrivial=len(items) + 2 * len(cli_names),
                rule=(f"(plus {len(cli_names)} names incl. non-NFC / compatibility / blank-edged ones through the in-process CLI vs the library) every string over {len(ALPHABET)} critical characters up to length {4 if tier == 'quick' else 5} (length >= 4: containing one of "
                      "$ { } \\ \" .) plus keywords / unicode / control characters as attribute name, as a single segment, under an attrpath family "
                      "(plain and with a quoted, dotted root), as the parent of a deeper path (plain and quoted), in a set and in a let layer: set, set again, rm; names decoded from the output CST by the "
                      "independent Nix string decoder"),
                samples=[dict(name=items[i][1], doc=items[i][0], shape=items[i][2]) for i in (0, len(items) // 2, -1)],
                exhaustive=True, violations=list(vio.values()), seconds=time.time() - t0)


def replay(v):
    i = v["inputs"]
    if "spelling" in i:
        bad = spelling_case(tuple(i["spelling"]))
        print(i, "->", bad)
        if bad:
            print("VIOLATION property=C12 replay=<given>")
            return 1
        return 0
    if "cli_name" in i:
        bad = cli_case(i["cli_name"])
        print(i, "->", bad)
        if bad:
            print("VIOLATION property=C12 replay=<given>")
            return 1
        return 0
    sym = eval_case((i["doc"], i["name"], i["shape"]))
    print(i, "->", sym)
    if sym:
        print("VIOLATION property=C12 replay=<given>")
        return 1
    return 0
