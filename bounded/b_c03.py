"""Bounded stand-in for C03 (see bounded/roundtrip.py)."""
from bounded.roundtrip import replay_roundtrip, run_roundtrip


def run(tier, seed):
    return run_roundtrip("C03", tier, seed)


def replay(v):
    return replay_roundtrip("C03", v)
