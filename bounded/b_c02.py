"""Bounded stand-in for C02: files built compositionally in RFC-0166 layout (the package-file idiom
and its parts) must be reproduced byte for byte by parse(text).rebuild().

No contract within reach can *define* "RFC-0166 canonical layout" (that would be a second
formatter); the quantifier is therefore this generated family, restricted to layouts that the
repository's own tests and documentation show as canonical.  Result: bounded.
"""
from __future__ import annotations

import multiprocessing as mp
import random
import zlib
import time

from bounded import nixgen as G

NAMES = ["pname", "version", "src", "meta", "doCheck", "buildInputs", "foo-bar", "a'", "_x", "passthru"]
SCALARS = ['"trl"', "true", "false", "null", "1", "42", "lib.licenses.asl20", "./src", '"v${version}"', "pkgs.hello",
           '"héllo"', "-1", "a.b.c or d", "(f x)", "f x y", "!x", "a + b", "a // b", "x: x", "<nixpkgs>", "~/x", "1.5",
           # strings that end in an escaped quote / an escaped backslash, and empty strings
           '"say \\"hi\\""', '"C:\\\\"', '""', "'" * 4]


def sp(n):
    return " " * n


class Gen:
    def __init__(self, rnd, max_depth):
        self.r = rnd
        self.max_depth = max_depth
        self.n = 0

    def tick(self):
        self.n += 1
        return self.n

    def fresh_name(self):
        base = self.r.choice(NAMES)
        k = self.tick()
        # unique within the file; keep the special characters at the end of the name
        if base.endswith("'"):
            return base[:-1] + str(k) + "'"
        return base + str(k)

    def value(self, ind, depth, kind=None):
        """Return the text of a value starting at column `ind` (first line not indented)."""
        kinds = ["scalar", "ilist", "mlist", "mset", "call", "with", "istr", "if", "iset", "eset", "elist", "recset", "assert",
                 "letv", "paren", "clist", "cset", "mlist_nested", "ifc", "ifc"]
        if depth >= self.max_depth:
            kinds = ["scalar", "ilist", "with", "iset", "eset", "elist"]
        k = kind or self.r.choice(kinds)
        if k == "scalar":
            return self.r.choice(SCALARS)
        if k == "ilist":
            return "[ " + " ".join(self.r.choice(['"a"', "b", "c.d", "1"]) for _ in range(self.r.randint(1, 3))) + " ]"
        if k == "elist":
            return "[ ]"
        if k == "eset":
            return "{ }"
        # containers that hold nothing but comments, and a container as an element of a multi-line list (own-line position)
        if k == "clist":
            return "[\n" + sp(ind + 2) + "# nothing yet\n" + sp(ind) + "]"
        if k == "cset":
            return "{\n" + sp(ind + 2) + "# nothing yet\n" + sp(ind) + "}"
        if k == "mlist_nested":
            inner = self.value(ind + 2, self.max_depth, self.r.choice(["clist", "cset", "ilist", "elist", "iset"]))
            return "[\n" + sp(ind + 2) + "first\n" + sp(ind + 2) + inner + "\n" + sp(ind) + "]"
        if k == "iset":
            return "{ " + self.r.choice(["a = 1;", 'x = "y";', "inherit z;"]) + " }"
        if k == "mlist":
            items = [self.r.choice(["setuptools", '"s"', "pkgs.x", "1", "(f a)"]) for _ in range(self.r.randint(1, 4))]
            body = []
            for it in items:
                if self.r.random() < 0.15:
                    body.append(sp(ind + 2) + "# item")
                body.append(sp(ind + 2) + it)
            return "[\n" + "\n".join(body) + "\n" + sp(ind) + "]"
        if k in ("mset", "recset"):
            return ("rec " if k == "recset" else "") + "{\n" + self.bindings(ind + 2, depth + 1, self.r.randint(1, 4)) + "\n" + sp(ind) + "}"
        if k == "call":
            head = self.r.choice(["fetchFromGitHub", "stdenv.mkDerivation", "callPackage ./x.nix", "lib.mkIf cond"])
            return head + " {\n" + self.bindings(ind + 2, depth + 1, self.r.randint(1, 3)) + "\n" + sp(ind) + "}"
        if k == "with":
            return "with lib.maintainers; [ hoh ]"
        if k == "istr":
            lines = [self.r.choice(["echo hi", "make ${target}", "''${x}", "a \\ b"]) for _ in range(self.r.randint(1, 3))]
            return "''\n" + "\n".join(sp(ind + 2) + ln for ln in lines) + "\n" + sp(ind) + "''"
        if k == "if":
            return "if cond then a else b"
        if k == "ifc":
            # a conditional on its own lines whose branches are documented: comments in one branch, in both, and in an else-if chain
            i2 = ind + 2
            shape = self.r.choice(["both", "both", "then", "else", "chain"])
            out = "\n" + sp(i2) + "if cond then\n"
            if shape in ("both", "then", "chain"):
                out += sp(i2 + 2) + "# why the first\n"
            out += sp(i2 + 2) + "first\n"
            if shape == "chain":
                out += sp(i2) + "else if other then\n" + sp(i2 + 2) + "# why the second\n" + sp(i2 + 2) + "second\n"
            out += sp(i2) + "else\n"
            if shape in ("both", "else", "chain"):
                out += sp(i2 + 2) + "# why the last\n"
            return out + sp(i2 + 2) + "last"
        if k == "assert":
            # not absorbable: goes on its own lines, one level deeper (see binding())
            return "\n" + sp(ind + 2) + "assert cond;\n" + sp(ind + 2) + "value"
        if k == "letv":
            i2 = ind + 2
            return ("\n" + sp(i2) + "let\n" + self.bindings(i2 + 2, depth + 1, self.r.randint(1, 2)) + "\n" + sp(i2) + "in\n"
                    + sp(i2) + "body")
        if k == "paren":
            return "(" + self.r.choice(["a", "f x", "a + b"]) + ")"
        raise AssertionError(k)

    def binding(self, ind, depth, kind=None):
        k = kind or self.r.choice(["plain"] * 6 + ["attrpath", "inherit", "inherit_from", "quoted"])
        def eq(v):
            return " =" + v if v.startswith("\n") else " = " + v

        if k == "plain":
            return sp(ind) + self.fresh_name() + eq(self.value(ind, depth)) + ";"
        if k == "quoted":
            return sp(ind) + '"a b%d" = ' % self.tick() + self.value(ind, depth, "scalar") + ";"
        if k == "attrpath":
            n = self.tick()
            return sp(ind) + self.r.choice(["meta%d.broken", "a%d.b.c", 'x%d."y z"']) % n + " = " + self.value(ind, depth, self.r.choice(["scalar", "ilist"])) + ";"
        if k == "inherit":
            n = self.tick()
            return sp(ind) + "inherit " + " ".join(x + str(n) for x in self.r.sample(["a", "b", "c"], self.r.randint(1, 3))) + ";"
        if k == "inherit_from":
            n = self.tick()
            return sp(ind) + "inherit (" + self.r.choice(["lib", "pkgs.x"]) + ") " + " ".join(x + str(n) for x in self.r.sample(["a", "b", "c"], self.r.randint(1, 2))) + ";"
        raise AssertionError(k)

    def bindings(self, ind, depth, n):
        out = []
        used_letv = False
        for i in range(n):
            if i and self.r.random() < 0.3:
                out.append("")  # single blank line
            x = self.r.random()
            if x < 0.2:
                out.append(sp(ind) + self.r.choice(["# build-system", "# Many tests require internet access.", "#no-space", "# é"]))
            elif x < 0.3:
                # a section comment, a blank line, then the comment documenting the binding
                out.append(sp(ind) + "# section")
                out.append("")
                out.append(sp(ind) + "# documents the next binding")
            elif x < 0.35:
                out.append(sp(ind) + "# first")
                out.append(sp(ind) + "# second")
            b = self.binding(ind, depth)
            if self.r.random() < 0.12 and "\n" not in b:
                b += " # eol"
            out.append(b)
        return "\n".join(out)

    def file(self, n):
        r = self.r
        header = r.choice(["", "", "# header\n", "# a\n# b\n", "/* block */\n"])
        shape = r.choice(["set", "lambda_call", "lambda_set", "let_set", "ident_lambda", "lambda_let_call", "with_set", "recset"])
        body_set = "{\n" + self.bindings(2, 1, n) + "\n}"
        if shape == "set":
            text = body_set
        elif shape == "recset":
            text = "rec " + body_set
        elif shape == "lambda_call":
            text = "{ lib, stdenv }:\nstdenv.mkDerivation " + r.choice(["", "rec "]) + body_set
        elif shape == "lambda_set":
            text = "{ pkgs, ... }:\n" + body_set
        elif shape == "ident_lambda":
            text = "self: super: " + body_set
        elif shape == "let_set":
            pre_body = r.choice(["", "", "# about the result\n", "# section\n\n# about the result\n"])
            text = "let\n" + self.bindings(2, 1, r.randint(1, 3)) + "\nin\n" + pre_body + body_set
        elif shape == "lambda_let_call":
            text = "{ lib, stdenv }:\nlet\n" + self.bindings(2, 1, r.randint(1, 2)) + "\nin\nstdenv.mkDerivation " + body_set
        elif shape == "with_set":
            text = "with import <nixpkgs> { };\n" + body_set
        return header + text + "\n"


def files(tier, seed):
    out = []
    seen = set()
    # systematic: every value kind as the single binding of a set, at nesting 1..3
    g = Gen(random.Random(1), 3)
    for kind in ["scalar", "ilist", "mlist", "mset", "call", "with", "istr", "if", "iset", "eset", "elist", "recset", "assert", "letv", "paren",
                 "clist", "cset", "mlist_nested"]:
        for rep in range(4):
            v = g.value(2, 1, kind)
            for wrap in ("{\n  a = %s;\n}\n", "{\n  a = {\n    b = %s;\n  };\n}\n"):
                ind = 2 if wrap.count("{") == 1 else 4
                v2 = Gen(random.Random(rep * 31 + zlib.crc32(kind.encode()) % 1000), 3).value(ind, 1, kind)
                out.append((wrap % v2).replace("= \n", "=\n"))
    # comment-only containers as the whole file and as the body of with / let / a function
    for c in ("[\n  # nothing yet\n]", "{\n  # nothing yet\n}"):
        out.append(c + "\n")
        out.append("with lib;\n" + c + "\n")
        out.append("let\n  a = 1;\nin\n" + c + "\n")
        out.append("{ pkgs }:\n" + c + "\n")
    # directly nested let blocks (2, 3 and 4 levels), with and without comments between them, at top level and under a lambda
    for levels in (2, 3, 4):
        for note in (False, True):
            for head in ("", "{ pkgs }:\n"):
                parts = []
                for k in range(levels):
                    if note and k:
                        parts.append(f"# level {k}")
                    parts.append(f"let\n  v{k} = {k if k == 0 else 'v%d' % (k - 1)};\n  w{k} = {k};\nin")
                out.append(head + "\n".join(parts) + "\n{\n  a = v%d;\n}\n" % (levels - 1))
    for bk in ["plain", "quoted", "attrpath", "inherit", "inherit_from"]:
        for rep in range(6):
            g2 = Gen(random.Random(rep * 7 + len(bk)), 3)
            out.append("{\n" + g2.binding(2, 1, bk) + "\n}\n")
    count = 3000 if tier == "quick" else 50000
    sizes = list(range(1, 13)) if tier == "quick" else list(range(1, 41))
    rnd = random.Random(1000 + seed)
    for i in range(count):
        g3 = Gen(random.Random(rnd.random()), 3 if tier == "quick" else 4)
        out.append(g3.file(sizes[i % len(sizes)]))
    res = []
    for t in out:
        # the installed py-tree-sitter (0.26.0) corrupts memory when a Point coordinate exceeds 256 (use after free in
        # point_new_internal: wrong rows, sporadic segfaults) - every generated input stays well inside (DESIGN.md 9)
        if t.count("\n") > 240 or max(len(ln) for ln in t.split("\n")) > 240:
            continue
        if t not in seen:
            seen.add(t)
            res.append(t)
    return res


def _check(chunk):
    from nix_manipulator import parse

    bad = []
    n = 0
    skipped = 0
    for t in chunk:
        root = G.parse_cst(t)
        if root.has_error:
            skipped += 1
            continue
        n += 1
        try:
            r = parse(t).rebuild()
        except Exception as e:
            bad.append((t, f"raises:{type(e).__name__}"))
            continue
        if r != t:
            bad.append((t, "bytes-differ"))
    return n, skipped, bad


def classify(text, out=None):
    """Coarse signature of a failing canonical file: which construct kinds it contains (sorted)."""
    feats = []
    for key, tag in (("''", "istr"), ("let\n", "let"), ("assert ", "assert"), ("inherit (", "inherit-from"), ("inherit ", "inherit"),
                     ("rec {", "rec"), ("# eol", "eol-comment"), ("/* block */", "block-header"), ("with ", "with"),
                     ('"a b"', "quoted-name"), ("if cond", "if"), ("(", "paren"), ("x: x", "lambda-value"), ("[\n", "mlist")):
        if key in text:
            feats.append(tag)
    return "+".join(feats) or "plain"


def first_diff(t):
    """Shape of the first line that differs (digits abstracted): the known-finding signature."""
    import re

    from nix_manipulator import parse

    try:
        r = parse(t).rebuild()
    except Exception as e:
        return f"raises {type(e).__name__}"
    a, b = t.split("\n"), r.split("\n")
    i = 0
    while i < min(len(a), len(b)) and a[i] == b[i]:
        i += 1
    norm = lambda x: re.sub(r"\d+", "N", x.strip())[:50]
    return f"{norm(a[i]) if i < len(a) else '<end>'} -> {norm(b[i]) if i < len(b) else '<end>'}"


def minimize(text):
    """Smallest single-binding reduction that still fails (drop bindings line-group by line-group)."""
    from nix_manipulator import parse

    def fails(t):
        if G.parse_cst(t).has_error:
            return False
        try:
            return parse(t).rebuild() != t
        except Exception:
            return True

    lines = text.split("\n")
    changed = True
    while changed:
        changed = False
        for i in range(len(lines)):
            for j in range(i + 1, min(len(lines), i + 12) + 1):
                cand = lines[:i] + lines[j:]
                t = "\n".join(cand)
                if fails(t):
                    lines = cand
                    changed = True
                    break
            if changed:
                break
    return "\n".join(lines)


def run(tier, seed):
    t0 = time.time()
    fs = files(tier, seed)
    chunks = [fs[i::32] for i in range(32)]
    with mp.get_context("fork").Pool(16) as pool:
        res = pool.map(_check, [c for c in chunks if c], chunksize=1)
    n = sum(r[0] for r in res)
    skipped = sum(r[1] for r in res)
    by_sig = {}
    for _, _, bad in res:
        for t, sym in bad:
            sig = f"{sym}|{first_diff(t)}"
            if sig not in by_sig:
                by_sig[sig] = dict(check="canonical-file", signature=sig, what=f"C02 {sym}: canonical file not reproduced ({first_diff(t)})",
                                   inputs={"text": t}, has_input=True,
                                   failing_input={"inputs": {"text": t}, "observed": sym, "origin": "bounded enumeration"})
    return dict(evaluations=n, distinct_nontrivial=n,
                rule=("compositional generator of RFC-0166 layout (bounded/b_c02.py): optional header comment, lambda/let/with/call "
                      "heads, multi-line and inline sets, attrpaths, inherit, lists, indented strings, with/if/assert values, own-line and "
                      "end-of-line comments, single blank lines; sizes 1..%d bindings, nesting <= %d; each distinct file is one case; "
                      "%d generated files rejected by tree-sitter were skipped" % (12 if tier == "quick" else 40, 3 if tier == "quick" else 4, skipped)),
                samples=[dict(text=fs[0]), dict(text=fs[len(fs) // 2]), dict(text=fs[-1])],
                exhaustive=False, violations=list(by_sig.values()), seconds=time.time() - t0)


def replay(v):
    from nix_manipulator import parse

    t = v["inputs"]["text"]
    r = parse(t).rebuild()
    print("input  :", repr(t))
    print("rebuilt:", repr(r))
    if r != t:
        print("VIOLATION property=C02 replay=<given>")
        return 1
    return 0
