"""Bounded stand-ins for the edit properties (C04, C05, C08, C09, C19): contracts on the real entry
points set_value / remove_value evaluated over an enumerated space of editable documents x paths x
values x short scripts, against a reference model of the documented semantics and an independent
CST reader (bounded/readers.py).  Results are *bounded*."""
from __future__ import annotations

import copy
import itertools
import multiprocessing as mp
import time

from bounded import nixgen as G
from bounded import readers as RD

# ---------------------------------------------------------------------------------------------
# documents

WRAPPERS = {
    "bare": "SET\n",
    "rec": "rec SET\n",
    "lambda": "{ pkgs }:\nSET\n",
    "lambda-let": "{ pkgs }:\nlet\n  v = 1;\nin\nSET\n",
    "let": "let\n  v = 1;\nin\nSET\n",
    "let2": "let\n  u = 1;\n  v = 0;\nin\nlet\n  v = 2;\n  w = 3;\nin\nSET\n",
    "let2-notes": "let # outer note\n  u = 1;\n  v = 0;\nin\nlet # inner note\n  v = 2;\n  w = 3;\nin\nSET\n",
    "let2-notes-single": "let # outer note\n  u = 1;\nin\nlet # inner note\n  v = 2;\n  w = 3;\nin\nSET\n",
    "let3": "let\n  u = 1;\nin\nlet # mid\n  v = 2;\nin\nlet\n  # about w\n  w = 3; # eol\nin\nSET\n",
    "with": "with pkgs;\nSET\n",
    "assert": "assert true;\nSET\n",
    "paren": "(SET)\n",
    "call": "f SET\n",
    "lambda-call": "{ pkgs }:\npkgs.mkDerivation SET\n",
    "header-comment": "# header\nSET\n",
    "lambda-with": "{ p }:\nwith p;\nSET\n",
    # equal-looking bindings (same leaf name, value and trivia) under different parents / in attrpath and plain form
    # a let layer that holds an `inherit` next to its one binding (the layer must survive `rm @v`), and three layers of which
    # two (not the outermost) read the same
    "let-inherit": "let\n  inherit (pkgs) lib;\n  v = 1;\nin\nSET\n",
    "let3-alike": "let\n  u = 1;\n  n = 0;\nin\nlet\n  v = 2;\nin\nlet\n  v = 2;\nin\nSET\n",
    # an attrpath family with several members inside a let layer
    "let-family": "let\n  z.q = 2;\n  z.r = 3;\n  v = 1;\nin\nSET\n",
    # a lambda with plain identifier parameters whose body opens on the colon line (overlay style)
    "lambda-colon-line": "final: prev: SET\n",
    "let-twins": "let\n  x = 0;\n  lib.v = 1;\n  v = 1;\n  w.v = 1;\nin\nSET\n",
}
CONTENTS = {
    "flat": "{\n  a = 1;\n  b = \"x\";\n}",
    "nested": "{\n  a = 1;\n  m = {\n    x = 1;\n    y = 2;\n  };\n}",
    "attrpath": "{\n  a = 1;\n  m.x = 1;\n  m.y = 2;\n}",
    "attrpath1": "{\n  m.x = 1;\n  a = 1;\n}",
    "comments": "{\n  # about a\n  a = 1; # eol\n\n  # about b\n  b = 2;\n}",
    "inherit": "{\n  inherit a;\n  b = 2;\n}",
    "quoted": "{\n  \"foo-bar\" = 1;\n  \"a.b\" = 2;\n  a = 3;\n}",
    "inline": "{ a = 1; }",
    "empty": "{ }",
    "deep": "{\n  a = 1;\n  m = {\n    n = {\n      x = 1;\n    };\n  };\n}",
    "attrpath-deep": "{\n  m.n.x = 1;\n  m.n.y = 2;\n  a = 1;\n}",
    # attrpath families that share more than their first segment (merged recursively at parse time)
    "attrpath-deep4": "{\n  s.n.v.m.a = true;\n  s.n.v.m.b = false;\n  s.n.w = 1;\n  k = 1;\n}",
    # a family whose members are not written next to each other
    "attrpath-interleaved": "{\n  s.n.a = 1;\n  s.h.a = 2;\n  s.n.p = 3;\n  k = 1;\n}",
    # a commented-out binding with a remark on the same row (two comments on one row)
    "two-comments-one-row": "{\n  a = 1;\n  /* b = 2; */ # why\n  c = 3;\n}",
    # one root defined explicitly and in attrpath form (legal Nix; merged by the evaluator)
    "set-and-attrpath": "{\n  a = {\n    x = 1;\n  };\n  a.b = 2;\n  k = 1;\n}",
    "set-and-attrpath-deep": "{\n  s = {\n    k = true;\n  };\n  s.t.u = 4;\n  z = 5;\n}",
    # an attrpath family inside an explicitly written nested set
    "nested-attrpath": "{\n  a = 1;\n  m = {\n    x.y = 1;\n    k = 2;\n  };\n}",
    # the same family spelled with blanks around the dots (legal Nix for the same paths)
    "attrpath-spaced": "{\n  a = 1;\n  m . x = 1;\n  m .y = 2;\n}",
    # ... two explicit levels down
    "deep-nested-attrpath": "{\n  a = 1;\n  m = {\n    n = {\n      x.y = 1;\n      x.w = 3;\n      k = 2;\n    };\n  };\n}",
    # ... whose root is called like the set that encloses it (the NixOS `users.users` idiom)
    "same-name-family": "{\n  users = {\n    users.alice.uid = 1000;\n    users.bob.uid = 1001;\n  };\n  k = 1;\n}",
    "twins": "{\n  z = 0;\n  a.enable = true;\n  b.enable = true;\n  enable = true;\n  m.x = 1;\n}",
    "twins-inline": "{ a.enable = true; b.enable = true; c.enable = true; }",
}
PATHS = ["a.enable", "b.enable", "c.enable", "enable", "@lib.v", "@w.v", "a", "b", "z", "m", "m.x", "m.z", "m.n.x", "n.p.q", '"foo-bar"', '"a.b"', '"new key"', "a.k", "m.x.k",
         "@v", "@@u", "@@v", "@new", "@@@x", "@v.k", "", "a..b", ".a", '"a', "@", "@@", "a-b", '"if"',
         # a scoped name that the attribute set body binds as well (the body must keep its text: C09)
         "@a", "@@a", "@m.x",
         # later members of deep attrpath families, fresh leaves in them, and the paths a mis-merged tree would answer to
         "m.n.y", "m.y", "m.n.z", "s.n.v.m.b", "s.n.v.m.c", "s.n.v.b", "s.n.w", "@@@u", "s.n.p", "s.h.a",
         "a.b", "a.x", "s.t.u", "s.k", "s.t", "@lib", "@n", "@@@n", "m.x.y", "m.x.z", "m.k", "users.users.alice.uid", "users.users.bob.uid", "users.users.carol.uid", "users.alice", "@z.r", "@z.s", "@z.q", "@z", "m.n.x.y", "m.n.x.z", "m.n.k", "m.n.x", "c"]
VALUES = ["2", '"s"', "[ 1 2 ]", "{ k = 1; }", "v", "{", "1 2", ""]


def documents(tier):
    for w, wt in WRAPPERS.items():
        for c, ct in CONTENTS.items():
            if tier == "quick" and w in ("lambda-with", "header-comment", "lambda-call") and c not in ("flat", "attrpath", "comments"):
                continue
            if w == "let-twins" and c not in ("flat", "twins", "attrpath"):
                continue
            if c.startswith("twins") and w not in ("bare", "let", "let-twins", "lambda-call", "rec"):
                continue
            if (c.startswith("set-and-attrpath") or c in ("nested-attrpath", "attrpath-spaced", "same-name-family", "deep-nested-attrpath", "two-comments-one-row")) and w not in ("bare", "lambda", "let"):
                continue
            if w in ("let-inherit", "let3-alike", "let-family", "lambda-colon-line") and c not in ("flat", "attrpath", "comments", "inline"):
                continue
            if c in ("attrpath-deep4", "attrpath-interleaved") and w not in ("bare", "let", "lambda-call", "rec", "lambda"):
                continue
            text = wt.replace("SET", ct)
            if w == "call" and c in ("inline", "empty"):
                pass
            yield f"{w}/{c}", text


# ---------------------------------------------------------------------------------------------
# reference model (from the statements of C05 / C09 / docs/cli.md)


class Unmodelled(Exception):
    """The documented semantics say nothing about this case: no verdict."""


class Refuse(Exception):
    def __init__(self, why):
        self.why = why


def parse_path(p):
    """Independent NPath reader for the model (specs.npath is the trusted grammar)."""
    from specs import npath as NP

    depth = 0
    while depth < len(p) and p[depth] == "@":
        depth += 1
    rest = p[depth:]
    if depth and not rest:
        raise Refuse("scope path without binding name")
    if not NP.np_accepts(rest):
        raise Refuse("malformed path")
    return depth, [name for name, _q in NP.np_result(rest)]


def value_text(v):
    root = G.parse_cst(v)
    kids = [c for c in root.children if c.type != "comment"]
    if root.has_error or len(kids) != 1:
        raise Refuse("invalid value")
    n = kids[0]
    if n.type in ("attrset_expression", "rec_attrset_expression"):
        return RD.tree_of_set(n)
    return RD.norm_value(n)


def is_attrpath_root(text, name, layer=None):
    """The name is defined in attrpath form (`name.x = ...`) in the editable set (or in let layer `layer`,
    counted from the outermost)."""
    root = G.parse_cst(text)
    s, lets = RD.unwrap_to_set(root)
    if layer is not None:
        s = lets[layer]
    for b in RD.bindings_of(s):
        if b.type == "binding":
            ap = b.child_by_field_name("attrpath")
            comps = [RD.attr_name(c) for c in ap.children if c.type not in (".", "comment")]
            if len(comps) > 1 and comps[0] == name:
                return True
    return False


def attrpath_prefixes(text, layer=None):
    """Every strict prefix (as a tuple of names) of an attribute path written in attrpath form in the editable set (or in let
    layer `layer`): the sets at these paths exist only through their members, so they cannot be overwritten or removed as such."""
    root = G.parse_cst(text)
    s, lets = RD.unwrap_to_set(root)
    if layer is not None:
        s = lets[layer]
    out = set()

    def walk(container, prefix):
        for b in RD.bindings_of(container):
            if b.type != "binding":
                continue
            ap = b.child_by_field_name("attrpath")
            comps = [RD.attr_name(c) for c in ap.children if c.type not in (".", "comment")]
            for k in range(1, len(comps)):
                out.add(tuple(prefix + comps[:k]))
            val = b.child_by_field_name("expression")
            if val is not None and val.type in ("attrset_expression", "rec_attrset_expression"):
                walk(val, prefix + comps)

    if s is not None:
        walk(s, [])
    return out


def model_set(tree, names, value, *, attrpath_roots=(), prefixes=()):
    t = tree
    if (len(names) == 1 and names[0] in attrpath_roots) or tuple(names) in prefixes:
        raise Refuse("attrpath-root overwrite")
    for nm in names[:-1]:
        if nm in t:
            if not isinstance(t[nm], dict):
                raise Refuse("non-set on the path")
            t = t[nm]
        else:
            t[nm] = {}
            t = t[nm]
    t[names[-1]] = value


def model_rm(tree, names, *, attrpath_roots=(), prefixes=()):
    if (len(names) == 1 and names[0] in attrpath_roots) or tuple(names) in prefixes:
        raise Refuse("missing key (attrpath root)")
    chain = [tree]
    t = tree
    for nm in names[:-1]:
        if nm not in t:
            raise Refuse("missing key")
        if not isinstance(t[nm], dict):
            raise Refuse("non-set on the path")
        t = t[nm]
        chain.append(t)
    if names[-1] not in t:
        raise Refuse("missing key")
    del t[names[-1]]
    # an attrpath parent left empty is pruned (a parent that is written as a set of its own stays, even when empty)
    for depth in range(len(names) - 2, -1, -1):
        parent, key = chain[depth], names[depth]
        derived = tuple(names[: depth + 1]) in prefixes if prefixes else names[0] in attrpath_roots
        if derived and isinstance(parent.get(key), dict) and not parent[key]:
            del parent[key]
        else:
            break


def apply_model(text, op, path, value):
    """Expected (tree, layers) after the edit, or Refuse."""
    err, tree, layers = RD.read_document(text)
    if err or tree is None:
        raise Refuse("not editable")
    depth, names = parse_path(path)
    val = value_text(value) if op == "set" else None
    if depth == 0 and op == "rm":
        t = tree
        for nm in names:
            if isinstance(t, dict) and isinstance(t.get(nm), tuple):
                raise Unmodelled("removal of an inherited name")
            t = t.get(nm) if isinstance(t, dict) else None
    tree = copy.deepcopy(tree)
    layers = copy.deepcopy(layers)
    if depth == 0:
        roots = {k for k in tree if is_attrpath_root(text, k)}
        pre = attrpath_prefixes(text)
        if op == "set":
            model_set(tree, names, val, attrpath_roots=roots, prefixes=pre)
        else:
            model_rm(tree, names, attrpath_roots=roots, prefixes=pre)
        return tree, layers
    # scope selector: depth-th layer counted from the innermost
    if depth > len(layers):
        if op == "set" and depth == 1 and not layers:
            layers = [{}]
        else:
            raise Refuse("missing scope layer")
    li = len(layers) - depth
    layer = layers[li]
    _, _, old_layers = RD.read_document(text)
    roots = {k for k in layer if li < len(old_layers) and is_attrpath_root(text, k, li)}
    pre = attrpath_prefixes(text, li) if li < len(old_layers) else set()
    if op == "rm":
        t = layer
        for nm in names:
            if isinstance(t, dict) and isinstance(t.get(nm), tuple):
                raise Unmodelled("removal of an inherited name")
            t = t.get(nm) if isinstance(t, dict) else None
    if op == "set":
        model_set(layer, names, val, attrpath_roots=roots, prefixes=pre)
    else:
        model_rm(layer, names, attrpath_roots=roots, prefixes=pre)
        if not layer:
            del layers[len(layers) - depth]
    return tree, layers


# ---------------------------------------------------------------------------------------------


def run_op(src, op, path, value):
    from nix_manipulator.cli.manipulations import remove_value, set_value

    return set_value(src, path, value) if op == "set" else remove_value(src, path)


def ops(tier):
    for p in PATHS:
        for v in (VALUES if tier == "thorough" else VALUES[:6]):
            yield ("set", p, v)
        yield ("rm", p, None)


def case_id(doc_id, op, path, value):
    return f"{doc_id}|{op} {path!r}" + (f" {value!r}" if op == "set" else "")


# ---------------------------------------------------------------------------------------------
# postconditions per property (None = holds, else symptom)


def common_affixes(a: bytes, b: bytes):
    i = 0
    n = min(len(a), len(b))
    while i < n and a[i] == b[i]:
        i += 1
    j = 0
    while j < n - i and a[len(a) - 1 - j] == b[len(b) - 1 - j]:
        j += 1
    return i, j


def alignments(a: bytes, b: bytes):
    """All (prefix, suffix) alignments of a pure block removal/insertion (the block can slide)."""
    i, j = common_affixes(a, b)
    out = [(i, j)]
    longer = a if len(a) >= len(b) else b
    while i > 0 and j < len(longer) and longer[i - 1] == longer[len(longer) - j - 1]:
        i -= 1
        j += 1
        out.append((i, j))
    return out


def _lv(text):
    """(kind, text) of every leaf incl. comments; comment text without surrounding blanks and with its inner lines de-indented."""
    out = []
    for t, x, s_, e_ in G.leaves(G.parse_cst_lenient(text)[0]):
        if t == "comment":
            x = "\n".join(ln.strip() for ln in x.strip().split("\n"))
        out.append((t, x, s_, e_))
    return out


def token_level_c04(text, out, op, path, value):
    """First clause of C04, for any layout: every code token and every comment outside the addressed binding is still there, once,
    in the same order.  Comments that count as attached to a removed binding: the own-line comments directly above it (back to
    the previous code token) and a comment on its own last line.  Only unscoped `rm` / `set` of an existing path."""
    depth, names = parse_path(path)
    if depth:
        return None
    ext = RD.find_binding_extent(text, names)
    if ext is None:
        return None
    (bs, be), (vs, ve) = ext
    b = text.encode("utf-8")
    lin = _lv(text)
    lout = _lv(out)
    if G.parse_cst(text).has_error or G.parse_cst(out).has_error:
        return None
    if op == "set":
        keep = [(t, x) for t, x, s_, e_ in lin if not (vs <= s_ < ve)]
        root = G.parse_cst(value)
        vleaves = [(t, x) for t, x, _s, _e in _lv(value)]
        # the value's own tokens may be re-laid out, so: input minus old value == output minus a contiguous run equal to the new value
        got = [(t, x) for t, x, _s, _e in lout]
        n, m = len(keep), len(vleaves)
        if len(got) != n + m:
            return "set-changed-tokens-or-comments-outside-the-addressed-binding"
        k = next((i for i in range(len(got)) if i >= len(keep) or got[i] != keep[i]), len(got))
        if got[:k] + got[k + m:] != keep:
            return "set-changed-tokens-or-comments-outside-the-addressed-binding"
        return None
    # rm
    code = [l for l in lin if l[0] != "comment"]
    prev_end = max([l[3] for l in code if l[3] <= bs], default=0)
    line_end = b.find(b"\n", be)
    line_end = len(b) if line_end < 0 else line_end
    nxt = min([l[2] for l in code if l[2] >= be], default=len(b))
    def attached(l):
        t, x, s_, e_ = l
        if t != "comment":
            return False
        if prev_end <= s_ < bs:
            # above the binding, not on the line of the previous token
            return b"\n" in b[prev_end:s_]
        return be <= s_ < min(line_end, nxt)
    keep = [(t, x) for l in lin for t, x, s_, e_ in [l] if not (bs <= s_ < be) and not attached(l)]
    got = [(t, x) for t, x, _s, _e in lout]
    # a parent left empty may be pruned: C05's business; only compare when nothing but the binding went
    if len(got) > len(keep):
        return "rm-left-tokens-of-the-removed-binding"
    if got != keep:
        if [g for g in got if g[0] != "comment"] == [k_ for k_ in keep if k_[0] != "comment"]:
            return "rm-changed-comments-outside-the-addressed-binding"
        return None
    return None


def allowed_region(text, depth, names, op):
    """Byte range of the input that the edit may change (C04): the addressed binding with the trivia
    between its neighbours; for a pure insertion the range is empty but may sit anywhere."""
    if depth:
        return scoped_region(text, depth, names, op)
    ext = RD.find_binding_extent(text, names)
    if ext is None:
        return "insert"
    (bs, be), (vs, ve) = ext
    if op == "set":
        return (vs, ve)
    b = text.encode("utf-8")
    # removal: the binding plus the trivia up to the neighbouring code tokens
    lv = [l for l in G.leaves(G.parse_cst(text)) if l[0] != "comment"]
    prev_end = max([l[3] for l in lv if l[3] <= bs], default=0)
    next_start = min([l[2] for l in lv if l[2] >= be], default=len(b))
    return (prev_end, next_start)


def scoped_region(text, depth, names, op):
    """Allowed change region of a scoped edit (C09: the other layers and the body keep their text)."""
    root = G.parse_cst(text)
    set_node, lets = RD.unwrap_to_set(root)
    if set_node is None or depth > len(lets):
        return "insert"  # a new innermost layer is a pure insertion
    let = lets[len(lets) - depth]
    b = text.encode("utf-8")

    def search(container, nm):
        for bn in RD.bindings_of(container):
            if bn.type != "binding":
                continue
            ap = bn.child_by_field_name("attrpath")
            comps = [RD.attr_name(c) for c in ap.children if c.type not in (".", "comment")]
            val = bn.child_by_field_name("expression")
            if comps == nm:
                return bn, val
            if len(comps) < len(nm) and comps == nm[: len(comps)] and val.type in ("attrset_expression", "rec_attrset_expression"):
                r = search(val, nm[len(comps):])
                if r:
                    return r
        return None

    hit = search(let, names)
    if hit is None:
        return "insert"
    bn, val = hit
    if op == "set":
        return (val.start_byte, val.end_byte)
    n_bind = len([x for x in RD.bindings_of(let) if x.type in ("binding", "inherit", "inherit_from")])
    lv = [l for l in G.leaves(root) if l[0] != "comment"]
    if n_bind == 1 and len(names) == 1:
        # removing the last binding removes that `let ... in` wrapper and only it
        body = let.child_by_field_name("body")
        prev_end = max([l[3] for l in lv if l[3] <= let.start_byte], default=0)
        return (prev_end, body.start_byte)
    prev_end = max([l[3] for l in lv if l[3] <= bn.start_byte], default=0)
    next_start = min([l[2] for l in lv if l[2] >= bn.end_byte], default=len(b))
    return (prev_end, next_start)


def eval_case(prop, doc_id, text, op, path, value):
    from nix_manipulator import parse

    src = parse(text)
    before = src.rebuild()
    actual_exc = None
    out = None
    try:
        out = run_op(src, op, path, value)
    except (KeyError, ValueError) as e:
        actual_exc = e
    except Exception as e:
        if prop in ("C08", "C05"):
            return f"internal-error:{type(e).__name__}"
        return None
    try:
        exp_tree, exp_layers = apply_model(text, op, path, value)
        refuse = None
    except Refuse as r:
        refuse = r.why
    except (RD.Dup, Unmodelled):
        return None

    if prop == "C08":
        if actual_exc is None:
            if refuse is not None:
                # "when set or rm cannot be applied ... it raises": the reasons the statement lists are the model's refusals
                return f"edit-that-cannot-be-applied-was-accepted:{refuse}"
            return None
        after = src.rebuild()
        if after != before:
            return "refused-edit-changed-document"
        # later edits behave as if the failed one had never happened
        follow = ("set", "zz9", "9")
        fresh = parse(text)
        try:
            o1 = run_op(src, *follow)
        except Exception as e:
            o1 = f"exc:{type(e).__name__}"
        try:
            o2 = run_op(fresh, *follow)
        except Exception as e:
            o2 = f"exc:{type(e).__name__}"
        if o1 != o2:
            return "later-edit-differs-after-refusal"
        return None

    if prop == "C05":
        if actual_exc is not None:
            if refuse is None:
                return f"refused-valid-edit:{type(actual_exc).__name__}"
            return None
        if refuse is not None:
            return f"accepted-edit-the-model-refuses:{refuse}"
        try:
            err, tree, layers = RD.read_document(out)
        except RD.Dup:
            return "output-defines-an-attribute-twice"
        if err:
            return "output-has-syntax-error"
        if tree is None:
            return "output-not-editable"
        if tree != exp_tree or layers != exp_layers:
            return "attribute-tree-differs-from-model"
        depth, names = parse_path(path)
        if op == "set" and depth == 0 and len(names) == 1:
            _, old_tree, _ = RD.read_document(text)
            if names[0] not in old_tree and list(tree)[-1] != names[0]:
                return "new-binding-not-last"
        return None

    if prop == "C06":
        if out is None:
            return None
        try:
            again = parse(out).rebuild()
        except Exception as e:
            return f"edit-output-rebuild-raises:{type(e).__name__}"
        if again != out:
            return "edit-output-not-a-fixed-point"
        return None

    if prop in ("C04", "C09"):
        if out is None or refuse is not None:
            return None
        if prop == "C04":
            sym = token_level_c04(text, out, op, path, value)
            if sym:
                return sym
        if before != text:
            return None  # the byte-level clause speaks about input in canonical layout
        depth, names = parse_path(path)
        if prop == "C09" and depth == 0:
            return None
        if prop == "C04" and depth > 0:
            return None
        region = allowed_region(text, depth, names, op)
        if region is None:
            return None
        a, b = text.encode("utf-8"), out.encode("utf-8")
        for i, j in alignments(a, b):
            changed_in = (i, len(a) - j)
            if region == "insert":
                if changed_in[1] <= changed_in[0]:
                    return None
                continue
            lo, hi = region
            if changed_in[1] <= changed_in[0] or (changed_in[0] >= lo and changed_in[1] <= hi):
                return None
        if region == "insert":
            return "insertion-changed-existing-text"
        return f"{op}-changed-text-outside-the-addressed-binding"

    return None


def coarse_signature(sym, op, path, text, wrapper, content):
    """Known root causes get one signature each (independent of document/path); anything else keeps the
    specific (operation, path, content, wrapper) signature."""
    try:
        depth, names = parse_path(path)
    except Refuse:
        depth, names = 0, []
    if sym == "output-has-syntax-error" and depth > 0 and wrapper in ("call", "lambda-call"):
        return f"{sym}|scoped edit on a call-argument target emits `f let ... in {{...}}`|wrapper={wrapper}"
    if op == "set" and depth == 1 and names:
        try:
            _, tree, layers = RD.read_document(text)
            t = tree
            for nm in names:
                t = t.get(nm) if isinstance(t, dict) else None
            if not layers and t is not None:
                return (f"{sym}|set @path on a let-less document whose body already binds the path edits the body instead of creating "
                        "a layer (pinned by test_set_scope_path_updates_existing_attrset_body)")
        except Exception:
            pass
    if sym == "output-defines-an-attribute-twice" and len(names) == 1:
        try:
            _, tree, layers = RD.read_document(text)
            if depth == 0 and isinstance(tree.get(names[0]), tuple):
                return f"{sym}|set of a name the set already inherits"
            if 0 < depth <= len(layers) and isinstance(layers[len(layers) - depth].get(names[0]), tuple):
                return f"{sym}|set of a name the let layer already inherits"
        except Exception:
            pass
    return None


def _chunk(args):
    prop, cases = args
    bad = []
    n = 0
    for doc_id, text, op, path, value in cases:
        n += 1
        try:
            sym = eval_case(prop, doc_id, text, op, path, value)
        except Refuse:
            sym = None
        except Exception as e:
            sym = f"harness-error:{type(e).__name__}:{e}"
        if sym:
            bad.append((doc_id, text, op, path, value, sym))
    return n, bad


def all_cases(tier):
    for doc_id, text in documents(tier):
        if G.parse_cst(text).has_error:
            continue
        for op, p, v in ops(tier):
            yield (doc_id, text, op, p, v)


def run_edits(prop, tier, seed, *, case_filter=None):
    t0 = time.time()
    cases = [c for c in all_cases(tier) if case_filter is None or case_filter(c)]
    chunks = [cases[i::64] for i in range(64)]
    with mp.get_context("fork").Pool(16) as pool:
        res = pool.map(_chunk, [(prop, c) for c in chunks if c], chunksize=1)
    n = sum(r[0] for r in res)
    by_sig = {}
    harness = []
    for _, bad in res:
        for doc_id, text, op, path, value, sym in bad:
            if sym.startswith("harness-error"):
                harness.append((doc_id, op, path, value, sym))
                continue
            wrapper, content = doc_id.split("/")
            sig = coarse_signature(sym, op, path, text, wrapper, content) or f"{sym}|{op} {path}|content={content}|wrapper={wrapper}"
            if op == "set" and value and value.rstrip().endswith("# c") and "syntax-error" in sym and content in ("inline", "empty", "twins-inline"):
                # one root cause, whatever the path: the value's trailing line comment is written in front of the closing brace of a
                # set that is rendered on one line
                sig = f"{sym}|a value ending in a line comment written into a one-line set comments out the closing brace"
            if sig not in by_sig:
                by_sig[sig] = dict(check="edits", signature=sig, what=f"{prop} {sym}: {op} {path!r} {value!r} on {doc_id}",
                                   inputs={"text": text, "op": op, "path": path, "value": value}, has_input=True,
                                   failing_input={"inputs": {"text": text, "op": op, "path": path, "value": value}, "observed": sym,
                                                  "origin": "bounded enumeration"})
    if harness:
        raise RuntimeError(f"harness errors: {harness[:3]}")
    return dict(evaluations=n, distinct_nontrivial=n,
                rule=(f"{len(WRAPPERS)} wrapper shapes x {len(CONTENTS)} set contents x {len(PATHS)} paths (existing, nested, attrpath, fresh, "
                      f"quoted, scope-prefixed, malformed) x values (int, string, list, set, reference, malformed) for set, plus rm; every "
                      "combination is one case; the contract compares the real result with a reference model of the documented semantics "
                      "through an independent CST reader"),
                samples=[dict(doc=c[0], op=c[2], path=c[3], value=c[4]) for c in cases[:: max(1, len(cases) // 4)][:4]],
                exhaustive=True, violations=list(by_sig.values()), seconds=time.time() - t0)


def replay_edit(prop, v):
    i = v["inputs"]
    sym = eval_case(prop, "replay/replay", i["text"], i["op"], i["path"], i["value"])
    print(i, "->", sym)
    if sym:
        print(f"VIOLATION property={prop} replay=<given>")
        return 1
    return 0


# ---------------------------------------------------------------------------------------------
# scripts (sequences of edits on one document object)


def eval_script(prop, doc_id, text, script):
    """Apply the script to one document object, comparing every step with the reference model."""
    from nix_manipulator import parse

    src = parse(text)
    cur_text = text
    for k, (op, path, value) in enumerate(script):
        before = src.rebuild()
        exc = None
        out = None
        try:
            out = run_op(src, op, path, value)
        except (KeyError, ValueError) as e:
            exc = e
        except Exception as e:
            return f"step{k}:internal-error:{type(e).__name__}"
        try:
            exp_tree, exp_layers = apply_model(cur_text, op, path, value)
            refuse = None
        except Refuse as r:
            refuse = r.why
        except (RD.Dup, Unmodelled):
            return None
        if exc is not None:
            if refuse is None:
                return f"step{k}:refused-valid-edit:{type(exc).__name__}"
            if src.rebuild() != before:
                return f"step{k}:refused-edit-changed-document"
            continue
        if refuse is not None:
            return f"step{k}:accepted-edit-the-model-refuses:{refuse}"
        try:
            err, tree, layers = RD.read_document(out)
        except RD.Dup:
            return f"step{k}:output-defines-an-attribute-twice"
        if err:
            return f"step{k}:output-has-syntax-error"
        if tree != exp_tree or layers != exp_layers:
            return f"step{k}:tree-or-layers-differ-from-model"
        cur_text = out
    return None


def _script_chunk(args):
    prop, items = args
    bad = []
    for doc_id, text, script in items:
        try:
            sym = eval_script(prop, doc_id, text, script)
        except Refuse:
            sym = None
        except Exception as e:
            sym = f"harness-error:{type(e).__name__}:{e}"
        if sym:
            bad.append((doc_id, text, script, sym))
    return len(items), bad


def run_scripts(prop, items, rule, *, exhaustive=True):
    t0 = time.time()
    chunks = [items[i::64] for i in range(64)]
    with mp.get_context("fork").Pool(16) as pool:
        res = pool.map(_script_chunk, [(prop, c) for c in chunks if c], chunksize=1)
    n = sum(r[0] for r in res)
    by_sig = {}
    for _, bad in res:
        for doc_id, text, script, sym in bad:
            if sym.startswith("harness-error"):
                raise RuntimeError(f"harness error {sym} on {doc_id} {script}")
            k = int(sym.split(":")[0][4:])
            wrapper, content = doc_id.split("/")
            sig = coarse_signature(sym.split(":", 1)[1], script[k][0], script[k][1], text, wrapper, content) or \
                f"{sym.split(':', 1)[1]}|{script[k][0]} {script[k][1]}|content={content}|wrapper={wrapper}"
            if sig not in by_sig:
                by_sig[sig] = dict(check="scripts", signature=sig, what=f"{prop} {sym}: script {script} on {doc_id}",
                                   inputs={"text": text, "script": [list(s) for s in script]}, has_input=True,
                                   failing_input={"inputs": {"text": text, "script": [list(s) for s in script]}, "observed": sym,
                                                  "origin": "bounded enumeration"})
    return dict(evaluations=n, distinct_nontrivial=n, rule=rule,
                samples=[dict(doc=i[0], script=i[2]) for i in items[:: max(1, len(items) // 3)][:3]],
                exhaustive=exhaustive, violations=list(by_sig.values()), seconds=time.time() - t0)


def merge(*results):
    out = dict(evaluations=0, distinct_nontrivial=0, rule=[], samples=[], exhaustive=True, violations=[], seconds=0.0)
    for r in results:
        out["evaluations"] += r["evaluations"]
        out["distinct_nontrivial"] += r["distinct_nontrivial"]
        out["rule"].append(r["rule"])
        out["samples"].extend(r["samples"][:3])
        out["exhaustive"] = out["exhaustive"] and r.get("exhaustive", False)
        out["violations"].extend(r["violations"])
        out["seconds"] += r.get("seconds", 0.0)
    out["rule"] = " || ".join(out["rule"])
    return out


def replay_script(prop, v):
    i = v["inputs"]
    sym = eval_script(prop, "replay/replay", i["text"], [tuple(s) for s in i["script"]])
    print(i, "->", sym)
    if sym:
        print(f"VIOLATION property={prop} replay=<given>")
        return 1
    return 0
