"""Bounded stand-in for C19: the four composition laws of edits on canonically formatted editable
documents (no external oracle: alternative operation sequences are compared with each other)."""
from __future__ import annotations

import multiprocessing as mp
import time

from bounded import edits as E
from bounded import readers as RD

EXISTING = {"flat": ["a", "b"], "nested": ["a", "m.x", "m.y"], "attrpath": ["a", "m.x", "m.y"], "comments": ["a", "b"],
            "quoted": ['"foo-bar"', '"a.b"', "a"], "deep": ["a", "m.n.x"], "attrpath-deep": ["m.n.x", "m.n.y", "a"], "inline": ["a"],
            "attrpath1": ["m.x", "a"], "inherit": ["b"], "empty": [],
            "twins": ["z", "a.enable", "b.enable", "enable", "m.x"], "twins-inline": ["a.enable", "b.enable", "c.enable"],
            "nested-attrpath": ["a", "m.x.y", "m.k"], "same-name-family": ["users.users.alice.uid", "users.users.bob.uid", "k"],
            "set-and-attrpath": ["a.b", "k"], "deep-nested-attrpath": ["a", "m.n.x.y", "m.n.x.w", "m.n.k"],
            "attrpath-deep4": ["s.n.v.m.a", "s.n.v.m.b", "s.n.w", "k"], "attrpath-interleaved": ["s.n.a", "s.h.a", "s.n.p", "k"]}
VALUES = ["2", '"s"', "v", "[ 1 2 ]", "{ k = 1; }"]  # `v` is a name the let wrappers bind: the written value is then a reference
# documents whose values are references: edits go through the names to their defining bindings (C11), so the laws also compare
# orders of edits that land in different scopes.  Paths listed resolve to pairwise different bindings under Nix scoping.
REF_DOCS = {
    "let-over-rec": ('let\n  release = version;\n  version = "1.0";\nin\nrec {\n  pname = "demo";\n  version = "2.0-local";\n  tag = release;\n}\n',
                     ["pname", "version", "tag"]),
    "fn-let-over-rec": ('{ lib }:\nlet\n  release = version;\n  version = "1.0";\nin\nrec {\n  version = "2.0-local";\n  tag = release;\n  meta = {\n    license = lib.mit;\n  };\n}\n',
                        ["version", "tag", "meta.license"]),
    "let-shadow": ('let\n  v = "1";\n  r = v;\nin\nlet\n  v = "2";\nin\n{\n  x = v;\n  y = r;\n  z = 0;\n}\n', ["x", "y", "z"]),
    "rec-alias": ('let\n  v = "1";\nin\nrec {\n  alias = v;\n  x = alias;\n  w = "3";\n  y = w;\n}\n', ["x", "y"]),
}


def apply(text, script, reparse=False):
    """One live document object, or - `reparse` - the text of each step parsed again for the next one (successive `nima` calls)."""
    from nix_manipulator import parse

    src = parse(text)
    out = text
    for op, p, v in script:
        if reparse:
            src = parse(out)
        out = E.run_op(src, op, p, v)
    return out


def laws(tier):
    docs = [(d, t, EXISTING[d.split("/")[1]]) for d, t in E.documents(tier) if d.split("/")[1] in EXISTING]
    docs += [(f"refs/{k}", t, ex) for k, (t, ex) in REF_DOCS.items()]
    for doc_id, text, ex in docs:
        vals = VALUES if tier == "thorough" else VALUES[:3]
        for p in ex + ["zz", "m.zz", "@zz", "@v"]:
            for v in vals:
                yield ("idempotent", doc_id, text, [("set", p, v)], [("set", p, v), ("set", p, v)])
        for p in ["zz", "@zz", '"z z"', "z'"]:
            for v in vals:
                yield ("set-rm-restores", doc_id, text, [], [("set", p, v), ("rm", p, None)])
        for p in ex:
            yield ("rm-set-restores-tree", doc_id, text, None, p)
        for i, p in enumerate(ex):
            for q in ex[i + 1:]:
                for v in vals[:2]:
                    yield ("commute", doc_id, text, [("set", p, v), ("set", q, "7")], [("set", q, "7"), ("set", p, v)])


def eval_law(item):
    kind, doc_id, text, s1, s2 = item
    try:
        if kind == "rm-set-restores-tree":
            p = s2
            ext = RD.find_binding_extent(text, E.parse_path(p)[1])
            if ext is None:
                return None
            (bs, be), (vs, ve) = ext
            val = text.encode()[vs:ve].decode()
            _, tree0, layers0 = RD.read_document(text)
            out = apply(text, [("rm", p, None), ("set", p, val)])
            _, tree1, layers1 = RD.read_document(out)
            if tree0 != tree1 or layers0 != layers1:
                return "rm-then-set-does-not-restore-the-attribute-tree"
            return None
        for reparse in (False, True):
            tag = "(each step on the re-parsed text of the previous one)" if reparse else ""
            try:
                a = apply(text, s1, reparse) if s1 else text
            except (KeyError, ValueError):
                return None  # the law is about edits that succeed
            try:
                b = apply(text, s2, reparse)
            except (KeyError, ValueError) as e:
                return f"{kind}:second-sequence-refused:{type(e).__name__}{tag}"
            if a != b:
                return f"{kind}:texts-differ{tag}"
        return None
    except (KeyError, ValueError):
        return None
    except E.Refuse:
        return None


def _chunk(items):
    bad = []
    for it in items:
        try:
            sym = eval_law(it)
        except Exception as e:
            sym = f"internal-error:{type(e).__name__}"
        if sym:
            bad.append((it, sym))
    return len(items), bad


def run(tier, seed):
    t0 = time.time()
    items = list(laws(tier))
    chunks = [items[i::64] for i in range(64)]
    with mp.get_context("fork").Pool(16) as pool:
        res = pool.map(_chunk, [c for c in chunks if c], chunksize=1)
    n = sum(r[0] for r in res)
    by_sig = {}
    for _, bad in res:
        for (kind, doc_id, text, s1, s2), sym in bad:
            wrapper, content = doc_id.split("/")
            path = s2 if isinstance(s2, str) else s2[0][1]
            sig = f"{sym}|{path}|content={content}|wrapper={wrapper}"
            if "second-sequence-refused" in sym and "re-parsed" in sym and wrapper in ("call", "lambda-call") and str(path).startswith("@"):
                # consequence of a recorded defect: a scoped edit on a call-argument target emits `f let ... in {...}`, which does not parse
                sig = f"a scoped edit on a call-argument target emits text the next step cannot parse|wrapper={wrapper}"
            if kind == "idempotent" and not isinstance(s2, str) and any(o[2] == "v" for o in s2 if o[0] == "set"):
                # one root cause, whatever the path: C11 makes the second `set` follow the reference the first one wrote
                sig = (f"{sym}|the value written is a name bound in an enclosing scope: the second set follows the reference and rewrites "
                       f"the definition (`v = v;`)|wrapper={wrapper}")
            if sig not in by_sig:
                by_sig[sig] = dict(check="laws", signature=sig, what=f"C19 {sym}: {s2} on {doc_id}", has_input=True,
                                   inputs={"kind": kind, "doc": doc_id, "text": text, "s1": s1, "s2": s2},
                                   failing_input={"inputs": {"text": text, "s1": s1, "s2": s2}, "observed": sym, "origin": "bounded enumeration"})
    return dict(evaluations=n, distinct_nontrivial=n,
                rule="the four laws (idempotent set, set-then-rm of a fresh or scope-prefixed path restores the text, rm-then-set restores the "
                     "attribute tree, sets on different existing paths commute) on every canonical editable document of bounded/edits.py x "
                     "existing/fresh paths x values; each (law, document, paths, value) is one case",
                samples=[dict(law=i[0], doc=i[1], s2=i[4]) for i in items[:: max(1, len(items) // 3)][:3]],
                exhaustive=True, violations=list(by_sig.values()), seconds=time.time() - t0)


def replay(v):
    i = v["inputs"]
    sym = eval_law((i["kind"], i["doc"], i["text"], [tuple(x) for x in i["s1"]] if i["s1"] else i["s1"],
                    [tuple(x) for x in i["s2"]] if isinstance(i["s2"], list) else i["s2"]))
    print(i, "->", sym)
    if sym:
        print("VIOLATION property=C19 replay=<given>")
        return 1
    return 0
