"""Bounded stand-in for C14: the mapping API (document, nested sets reached through it, scope
mapping) obeys dictionary laws, and the rebuilt text always shows exactly the bindings the mapping
reports.  Scripts of item get/set/delete are run on the real objects; after every step the
attribute tree read from rebuild() text (independent CST reader), the mapping's own lookups and a
plain dict model must agree."""
from __future__ import annotations

import copy
import itertools
import multiprocessing as mp
import time

from bounded import edits as E
from bounded import nixgen as G
from bounded import readers as RD

PYVALS = {"5": 5, '"s"': "s", "{ k = 1; }": {"k": 1}, "[ 1 2 ]": [1, 2], "true": True}


def vtext(nix):
    root = G.parse_cst(nix)
    n = [c for c in root.children if c.type != "comment"][0]
    if n.type in ("attrset_expression", "rec_attrset_expression"):
        return RD.tree_of_set(n)
    return RD.norm_value(n)


OPS = ([("set", k, v) for k in ("a", "z", "m") for v in ("5", '"s"', "{ k = 1; }")]
       + [("del", k) for k in ("a", "z", "m", "b")] + [("get", k) for k in ("a", "m", "zz")]
       + [("del", "enable"), ("ndel", "b", "enable"), ("sdel", "x"),
          # the CLI edits on the same live document: the mapping must stay coherent with the text through them as well
          ("rm", "a.b"), ("rm", "m.x"), ("rm", "s.t.u"), ("cset", "a.c", "5"), ("cset", "m.zz", "5"), ("rm", "@@u"),
          ("nset", "m", "zz", "5"), ("ndel", "m", "x"), ("nset", "a", "k", "5"), ("sset", "v", "5"), ("sdel", "v"), ("sset", "nw", "5"), ("sget", "v")])


def docs(tier):
    for d, t in E.documents(tier):
        w, c = d.split("/")
        if w in ("bare", "lambda", "let", "lambda-call", "let2", "rec", "let-twins", "let2-notes-single") and c in ("flat", "nested", "attrpath", "attrpath1", "comments", "attrpath-deep", "inline", "twins", "attrpath-interleaved"):
            yield d, t
        elif w in ("bare", "lambda") and c in ("set-and-attrpath", "set-and-attrpath-deep"):
            yield d, t


def eval_script(doc_id, text, script, lookups=True):
    from nix_manipulator import parse
    from nix_manipulator.cli.manipulations import _resolve_target_set

    src = parse(text)
    _, model, layers = RD.read_document(text)
    model = copy.deepcopy(model)
    layers = copy.deepcopy(layers)
    for k, op in enumerate(script):
        kind = op[0]
        before_text = src.rebuild()
        exc = None
        got = None
        try:
            if kind == "set":
                src[op[1]] = PYVALS[op[2]]
            elif kind == "del":
                del src[op[1]]
            elif kind == "get":
                got = src[op[1]]
            elif kind == "nset":
                src[op[1]][op[2]] = PYVALS[op[3]]
            elif kind == "ndel":
                del src[op[1]][op[2]]
            elif kind == "rm":
                E.run_op(src, "rm", op[1], None)
            elif kind == "cset":
                E.run_op(src, "set", op[1], op[2])
            elif kind in ("sset", "sdel", "sget"):
                from nix_manipulator.expressions.set import AttributeSet as _AS

                # the document's own expression when it is the (let-wrapped) set itself, as a user of the API reaches it
                target = src.expr if isinstance(src.expr, _AS) else _resolve_target_set(src)
                if kind == "sset":
                    target.scope[op[1]] = PYVALS[op[2]]
                elif kind == "sdel":
                    del target.scope[op[1]]
                else:
                    got = target.scope[op[1]]
        except Exception as e:
            exc = e
        # ---- model
        mexc = None
        try:
            if kind == "set":
                model[op[1]] = vtext(op[2])
            elif kind == "del":
                if op[1] not in model:
                    raise KeyError(op[1])
                del model[op[1]]
            elif kind == "get":
                if op[1] not in model:
                    raise KeyError(op[1])
            elif kind == "nset":
                if op[1] not in model:
                    raise KeyError(op[1])
                if not isinstance(model[op[1]], dict):
                    raise TypeError("not a mapping")
                model[op[1]][op[2]] = vtext(op[3])
            elif kind == "ndel":
                if op[1] not in model:
                    raise KeyError(op[1])
                if not isinstance(model[op[1]], dict):
                    raise TypeError("not a mapping")
                if op[2] not in model[op[1]]:
                    raise KeyError(op[2])
                del model[op[1]][op[2]]
            elif kind == "rm" and op[1].startswith("@"):
                depth, names = E.parse_path(op[1])
                if depth > len(layers) or names[0] not in layers[len(layers) - depth]:
                    raise KeyError(op[1])
                del layers[len(layers) - depth][names[0]]
                if not layers[len(layers) - depth]:
                    del layers[len(layers) - depth]
            elif kind in ("rm", "cset"):
                names = E.parse_path(op[1])[1]
                roots = {k_ for k_ in model if E.is_attrpath_root(before_text, k_)}
                pre = E.attrpath_prefixes(before_text)
                try:
                    if kind == "rm":
                        E.model_rm(model, names, attrpath_roots=roots, prefixes=pre)
                    else:
                        E.model_set(model, names, vtext(op[2]), attrpath_roots=roots, prefixes=pre)
                except E.Refuse as r:
                    raise KeyError(r.why)
            # the expression's own `scope` mapping is its outermost let layer
            elif kind == "sset":
                if not layers:
                    layers.append({})
                layers[0][op[1]] = vtext(op[2])
            elif kind == "sdel":
                if not layers or op[1] not in layers[0]:
                    raise KeyError(op[1])
                del layers[0][op[1]]
                if not layers[0]:
                    layers.pop(0)
            elif kind == "sget":
                if not layers or op[1] not in layers[0]:
                    raise KeyError(op[1])
        except (KeyError, TypeError) as e:
            mexc = e
        if mexc is not None:
            if exc is None:
                return f"step{k}:{kind}:no-exception-where-{type(mexc).__name__}-is-due"
            if isinstance(mexc, KeyError) and not isinstance(exc, KeyError) and not (kind in ("rm", "cset") and isinstance(exc, ValueError)):
                return f"step{k}:{kind}:raises-{type(exc).__name__}-instead-of-KeyError"
            if src.rebuild() != before_text:
                return f"step{k}:{kind}:failed-operation-has-side-effects"
            continue
        if exc is not None:
            return f"step{k}:{kind}:raises-{type(exc).__name__}"
        # ---- text agrees with model
        out = src.rebuild()
        try:
            err, tree, lay = RD.read_document(out)
        except RD.Dup:
            return f"step{k}:{kind}:text-defines-an-attribute-twice"
        if err:
            return f"step{k}:{kind}:text-has-syntax-error"
        if tree != model:
            return f"step{k}:{kind}:text-and-mapping-model-disagree"
        if lay != layers:
            return f"step{k}:{kind}:scope-text-and-model-disagree"
        # ---- lookups agree with model (recursively through nested sets: the text shows exactly what the mapping reports)
        # (a lookup can itself repair state - it re-attaches owners and contexts - so histories with CLI edits are also run
        # without any lookup between the steps: `lookups=False`)
        sym = _lookups_agree(src, model, 0) if lookups else None
        if sym:
            return f"step{k}:{kind}:{sym}"
    return None


def _lookups_agree(obj, model, depth):
    from nix_manipulator.expressions.expression import coerce_expression

    for key, val in model.items():
        if isinstance(val, tuple):
            continue  # inherited names: the mapping hands out a proxy, not compared here
        try:
            v = obj[key]
        except Exception as e:
            return f"lookup-of-present-key-raises-{type(e).__name__}" + ("-in-nested-set" if depth else "")
        if isinstance(val, str):
            rt = coerce_expression(v).rebuild()
            if vtext(rt) != val:
                return "lookup-returns-another-value" + ("-in-nested-set" if depth else "")
        elif isinstance(val, dict) and depth < 4 and hasattr(v, "__getitem__") and hasattr(v, "values"):
            sym = _lookups_agree(v, val, depth + 1)
            if sym:
                return sym
    return None


def _chunk(items):
    bad = []
    for d, t, s in items:
        try:
            sym = eval_script(d, t, s)
            if not sym and any(op[0] in ("rm", "cset") for op in s):
                sym = eval_script(d, t, s, lookups=False)
                if sym:
                    sym += "(no-lookups-between-the-steps)"
        except Exception as e:
            sym = f"harness-error:{type(e).__name__}:{e}"
        if sym:
            bad.append((d, t, s, sym))
    return len(items), bad


def run(tier, seed):
    t0 = time.time()
    n_ops = 2 if tier == "quick" else 3
    items = []
    for d, t in docs(tier):
        for combo in itertools.product(OPS, repeat=n_ops):
            items.append((d, t, list(combo)))
    chunks = [items[i::64] for i in range(64)]
    with mp.get_context("fork").Pool(16) as pool:
        res = pool.map(_chunk, [c for c in chunks if c], chunksize=1)
    n = sum(r[0] for r in res)
    by_sig = {}
    for _, bad in res:
        for d, t, s, sym in bad:
            if sym.startswith("harness-error"):
                raise RuntimeError(f"{sym} on {d} {s}")
            k = int(sym.split(":")[0][4:])
            w, c = d.split("/")
            sig = f"{sym.split(':', 1)[1]}|{' '.join(map(str, s[k]))}|content={c}|wrapper={w}"
            # known root cause: operations on an attrpath-derived root (or inside one) leave stale render-order entries
            key = s[k][1]
            if "disagree" in sym and s[k][0] in ("set", "del", "nset", "ndel") and E.is_attrpath_root(t, key):
                sig = f"{sym.split(':', 1)[1]}|{s[k][0]} on an attrpath-derived root"
                k = 0
            if c.startswith("set-and-attrpath") and "lookup-of-present-key-raises-KeyError-in-nested-set" in sym:
                # known root cause: `a = { ... }; a.b = ...;` is kept as two bindings named `a`; lookups see the first one only
                sig = f"lookup-of-present-key-raises-KeyError-in-nested-set|root defined both explicitly and in attrpath form|content={c}"
                k = 0
            if k > 0:
                # the same step failing on the unmodified document is the same defect
                if eval_script(d, t, [s[k]]) == "step0:" + sym.split(":", 1)[1]:
                    continue
                sig += f"|after={' '.join(map(str, s[k - 1]))}"
            if sig not in by_sig:
                by_sig[sig] = dict(check="mapping", signature=sig, what=f"C14 {sym}: script {s} on {d}", has_input=True,
                                   inputs={"text": t, "script": s, "doc": d},
                                   failing_input={"inputs": {"text": t, "script": s}, "observed": sym, "origin": "bounded enumeration"})
    from bounded import livefresh

    lf = livefresh.run("C14", tier, seed)
    return E.merge(_own(n, n_ops, items, by_sig, t0), lf)


def _own(n, n_ops, items, by_sig, t0):
    return dict(evaluations=n, distinct_nontrivial=n,
                rule=f"all sequences of {n_ops} mapping operations from a {len(OPS)}-operation alphabet (document get/set/del, nested set "
                     "get/set/del through a lookup, scope mapping get/set/del; int/string/dict values) on 6 wrappers x 7 contents incl. "
                     "attrpath-derived sets; after each step text tree == dict model == lookups",
                samples=[dict(doc=i[0], script=i[2]) for i in items[:: max(1, len(items) // 3)][:3]],
                exhaustive=True, violations=list(by_sig.values()), seconds=time.time() - t0)


def replay(v):
    i = v["inputs"]
    if "ops" in i:
        from bounded import livefresh

        return livefresh.replay("C14", v)
    sc = [tuple(x) for x in i["script"]]
    sym = eval_script(i.get("doc", "r/r"), i["text"], sc) or eval_script(i.get("doc", "r/r"), i["text"], sc, lookups=False)
    print(i, "->", sym)
    if sym:
        print("VIOLATION property=C14 replay=<given>")
        return 1
    return 0
