"""C20, proved part: ghost rebuild-call bound.

Ghost state: calls[c] is incremented at every `X.rebuild(...)` / `X.rebuild_scoped(...)` where X
derives from child c of `self` (through assignment, model_copy, _clone_with_trivia,
coerce_expression, helper parameters).  Obligation per method and child:

    cost[<Class.method>: <child>]     on every path  calls[child] <= 1

If it holds for every class, the number of rebuild invocations is bounded by the number of nodes.
A child rendered twice on one path gives 2^depth invocations on a self-nesting chain - "doubling
the depth squares the time".  The analysis is a max/sum abstract interpretation of the real AST:
sequence = sum, if/else = max, early return ends a path, a loop over a list of children counts its
body once per element; helper functions are summarised by how often they render each parameter.
"""
from __future__ import annotations

import ast
import glob
import os

REPO = os.environ.get("NIMA_REPO", "/repo")
RENDER = {"rebuild", "rebuild_scoped"}
PASS_THROUGH = {"model_copy", "coerce_expression", "_clone_with_trivia", "copy", "replace", "cast", "_strip_parentheses"}


class Fn:
    def __init__(self, module, qual, node, cls):
        self.module, self.qual, self.node, self.cls = module, qual, node, cls
        self.params = [a.arg for a in node.args.posonlyargs + node.args.args + node.args.kwonlyargs]
        self.summary: dict = {}  # param -> max renders


def load():
    fns = {}
    for path in sorted(glob.glob(os.path.join(REPO, "nix_manipulator/expressions/**/*.py"), recursive=True)):
        rel = os.path.relpath(path, REPO)
        tree = ast.parse(open(path, encoding="utf-8").read())

        def visit(body, prefix, cls):
            for n in body:
                if isinstance(n, ast.FunctionDef):
                    fns[(rel, prefix + n.name)] = Fn(rel, prefix + n.name, n, cls)
                    visit(n.body, prefix + n.name + ".", cls)
                elif isinstance(n, ast.ClassDef):
                    visit(n.body, prefix + n.name + ".", n.name)

        visit(tree.body, "", None)
    return fns


# Abstract value per child: the set of *bags of render sites* that can be executed on one path
# (a bag is a sorted tuple of site labels).  Sequence = pairwise union of bags, branch = union of the
# sets.  A bag with more than one site is a path that renders the child more than once; naming the
# sites (not just counting) lets a *new* double render be told from one that is already recorded.
NONE = frozenset({()})


def _cap(bags):
    out = set()
    for b in bags:
        out.add(tuple(sorted(b))[:4])
        if len(out) >= 48:
            break
    return frozenset(out)


def add(a, b):
    out = dict(a)
    for k, v in b.items():
        cur = out.get(k, NONE)
        out[k] = _cap({x + y for x in cur for y in v})
    return out


def mx(a, b):
    out = {}
    for k in set(a) | set(b):
        out[k] = _cap(set(a.get(k, NONE)) | set(b.get(k, NONE)))
    return out


def one(label, times=1):
    return frozenset({(label,) * times})


def worst(bags):
    return max((len(b) for b in bags), default=0)


class Counter:
    def __init__(self, fn, by_name):
        self.fn = fn
        self.by_name = by_name
        self.alias: dict[str, str | None] = {}
        self.loopvars: dict[str, str] = {}
        self.sites: dict[str, list] = {}
        # pre-number repeated site texts in source order
        calls = [n for n in ast.walk(fn.node) if isinstance(n, ast.Call)]
        for n in sorted(calls, key=lambda c: (c.lineno, c.col_offset)):
            self.site(n)

    def origin(self, e):
        """Which child of self / which parameter an expression derives from (None = not a child)."""
        if isinstance(e, ast.Name):
            if e.id in self.alias:
                return self.alias[e.id]
            if e.id in self.fn.params:
                return e.id
            return None
        if isinstance(e, ast.Attribute):
            base = self.origin(e.value)
            if isinstance(e.value, ast.Name) and e.value.id == "self":
                return "self." + e.attr
            if base is not None and base.startswith("self.") and e.attr in ("value", "expr"):
                return base + "." + e.attr
            return base + "." + e.attr if base is not None and base in self.fn.params and base != "self" else None
        if isinstance(e, ast.Call):
            f = e.func
            name = f.id if isinstance(f, ast.Name) else (f.attr if isinstance(f, ast.Attribute) else None)
            if name in PASS_THROUGH:
                if isinstance(f, ast.Attribute) and name in ("model_copy", "copy"):
                    return self.origin(f.value)
                if e.args:
                    return self.origin(e.args[-1] if name == "cast" else e.args[0])
            return None
        if isinstance(e, ast.Subscript):
            b = self.origin(e.value)
            return b + "[]" if b else None
        if isinstance(e, ast.IfExp):
            return self.origin(e.body) or self.origin(e.orelse)
        return None

    # -- renders inside an expression
    def expr_count(self, e):
        total = {}
        if e is None:
            return total
        for n in ast.walk(e):
            if isinstance(n, (ast.Lambda, ast.FunctionDef)):
                continue
            if not isinstance(n, ast.Call):
                continue
            f = n.func
            if isinstance(f, ast.Attribute) and f.attr in RENDER:
                o = self.origin(f.value)
                if o:
                    total = add(total, {o: one(self.site(n))})
                continue
            name = f.id if isinstance(f, ast.Name) else (f.attr if isinstance(f, ast.Attribute) else None)
            for cand in self.by_name.get(name, []):
                if not cand.summary:
                    continue
                params = [p for p in cand.params if p != "self"] if (isinstance(f, ast.Attribute) and cand.cls) else cand.params
                contrib = {}
                for i, a in enumerate(n.args):
                    if i < len(params) and cand.summary.get(params[i]):
                        o = self.origin(a)
                        if o == "self" or (isinstance(a, ast.Name) and a.id == "self"):
                            # the helper receives the node itself: its renders of `param.child` are renders of `self.child`
                            for pk, pv in cand.summary.items():
                                if pk.startswith("path:" + params[i] + "."):
                                    contrib = mx(contrib, {"self." + pk[len("path:" + params[i] + "."):]: one(self.site(n), pv)})
                        elif o:
                            contrib = mx(contrib, {o: one(self.site(n), cand.summary[params[i]])})
                for kw in n.keywords:
                    if kw.arg and cand.summary.get(kw.arg):
                        o = self.origin(kw.value)
                        if o:
                            contrib = mx(contrib, {o: one(self.site(n), cand.summary[kw.arg])})
                if isinstance(f, ast.Attribute) and cand.cls and cand.summary.get("self"):
                    o = self.origin(f.value)
                    if o:
                        contrib = mx(contrib, {o: one(self.site(n), cand.summary["self"])})
                total = add(total, contrib)
                break
        return total

    def site(self, call):
        """Label of a render site: its source text (stable under unrelated edits), numbered when repeated."""
        text = " ".join(ast.unparse(call).split())
        if len(text) > 70:
            text = text[:67] + "..."
        key = (call.lineno, call.col_offset)
        seen = self.sites.setdefault(text, [])
        if key not in seen:
            seen.append(key)
            seen.sort()
        k = seen.index(key)
        return text if k == 0 else f"{text} (occurrence {k + 1})"

    def block(self, stmts):
        """(counts on the paths that fall through, max counts over the paths that returned)"""
        cur = {}
        returned = {}
        for i, st in enumerate(stmts):
            if isinstance(st, (ast.Return, ast.Raise)):
                c = self.expr_count(getattr(st, "value", None) or getattr(st, "exc", None))
                returned = mx(returned, add(cur, c))
                return None, returned
            if isinstance(st, (ast.Continue, ast.Break)):
                # ends this iteration's path (the enclosing loop takes the maximum over its body paths)
                returned = mx(returned, cur)
                return None, returned
            if isinstance(st, ast.If):
                t = self.expr_count(st.test)
                saved_alias = dict(self.alias)
                b_ft, b_ret = self.block(st.body)
                alias_b = self.alias
                self.alias = dict(saved_alias)
                o_ft, o_ret = self.block(st.orelse)
                for k, v in alias_b.items():
                    self.alias.setdefault(k, v)
                base = add(cur, t)
                returned = mx(returned, mx(add(base, b_ret) if b_ret else {}, add(base, o_ret) if o_ret else {}))
                if b_ft is None and o_ft is None:
                    return None, returned
                ft = {}
                if b_ft is not None:
                    ft = mx(ft, b_ft)
                if o_ft is not None:
                    ft = mx(ft, o_ft)
                cur = add(base, ft)
                continue
            if isinstance(st, (ast.For, ast.While)):
                head = self.expr_count(st.iter if isinstance(st, ast.For) else st.test)
                saved = dict(self.alias)
                if isinstance(st, ast.For):
                    o = self.origin(st.iter)
                    for n in ast.walk(st.target):
                        if isinstance(n, ast.Name):
                            # one element per iteration: rendering the loop variable is once per child
                            self.alias[n.id] = (o + "[each]") if o else None
                b_ft, b_ret = self.block(st.body)
                body = mx(b_ft or {}, b_ret)
                # rendering something that is *not* the per-iteration element inside a loop repeats it
                scaled = {k: (v if k.endswith("[each]") or "[each]" in k else _cap({b + b for b in v})) for k, v in body.items()}
                self.alias = saved
                cur = add(add(cur, head), scaled)
                continue
            if isinstance(st, ast.Try):
                b_ft, b_ret = self.block(st.body)
                returned = mx(returned, add(cur, b_ret) if b_ret else {})
                hmax = {}
                for h in st.handlers:
                    h_ft, h_ret = self.block(h.body)
                    hmax = mx(hmax, mx(h_ft or {}, h_ret))
                cur = add(cur, add(b_ft or {}, hmax))
                continue
            if isinstance(st, ast.With):
                b_ft, b_ret = self.block(st.body)
                returned = mx(returned, add(cur, b_ret) if b_ret else {})
                cur = add(cur, b_ft or {})
                continue
            if isinstance(st, (ast.FunctionDef, ast.ClassDef, ast.Import, ast.ImportFrom, ast.Pass, ast.Nonlocal, ast.Global)):
                continue
            # plain statement
            val = getattr(st, "value", None)
            c = self.expr_count(st) if not isinstance(st, (ast.Assign, ast.AnnAssign, ast.AugAssign)) else self.expr_count(val)
            cur = add(cur, c)
            if isinstance(st, ast.Assign) and len(st.targets) == 1 and isinstance(st.targets[0], ast.Name):
                self.alias[st.targets[0].id] = self.origin(st.value)
            elif isinstance(st, ast.AnnAssign) and isinstance(st.target, ast.Name) and st.value is not None:
                self.alias[st.target.id] = self.origin(st.value)
            # comprehensions rendering each element of a child list
        return cur, returned

    def run(self):
        # comprehension variables: [x.rebuild() for x in self.items] renders each element once
        for n in ast.walk(self.fn.node):
            if isinstance(n, (ast.ListComp, ast.GeneratorExp, ast.SetComp)):
                for g in n.generators:
                    o = self.origin(g.iter)
                    for t in ast.walk(g.target):
                        if isinstance(t, ast.Name):
                            self.alias[t.id] = (o + "[each]") if o else None
        ft, ret = self.block([s for s in self.fn.node.body])
        return mx(ft or {}, ret)


def run(tier="quick"):
    fns = load()
    by_name = {}
    for fn in fns.values():
        by_name.setdefault(fn.qual.split(".")[-1], []).append(fn)
    # helper summaries (fixpoint): how often each parameter is rendered
    for _ in range(5):
        changed = False
        for fn in fns.values():
            if fn.qual.split(".")[-1] in RENDER:
                continue
            counts = Counter(fn, by_name).run()
            summ = {}
            for k, v in counts.items():
                root = k.split(".")[0].split("[")[0]
                if root in fn.params:
                    summ[root] = max(summ.get(root, 0), worst(v))
                    if root != "self" and "." in k and "[" not in k:
                        summ["path:" + k] = max(summ.get("path:" + k, 0), worst(v))
                if k.startswith("self.") and fn.cls:
                    summ["self:" + k] = worst(v)
            if summ != fn.summary:
                fn.summary = summ
                changed = True
        if not changed:
            break
    obligations = discharged = 0
    violations = []
    functions = []
    for (rel, q), fn in sorted(fns.items()):
        last = q.split(".")[-1]
        if fn.cls is None or last not in RENDER:
            continue
        c = Counter(fn, by_name)
        counts = c.run()
        # methods of the same class called on self contribute their renders of self's children
        for n in ast.walk(fn.node):
            if isinstance(n, ast.Call) and isinstance(n.func, ast.Attribute) and isinstance(n.func.value, ast.Name) and n.func.value.id == "self":
                for cand in by_name.get(n.func.attr, []):
                    if cand.cls == fn.cls and cand is not fn:
                        for k, v in cand.summary.items():
                            if k.startswith("self:") and v:
                                counts = add(counts, {k[5:]: one(f"self.{n.func.attr}(...)", v)})
        per_child = {k: v for k, v in counts.items() if k.startswith("self.")}
        n_ob = 0
        n_ok = 0
        for child, bags in sorted(per_child.items()):
            obligations += 1
            n_ob += 1
            multi = sorted({b for b in bags if len(b) > 1})
            if not multi:
                discharged += 1
                n_ok += 1
            for b in multi:
                name = f"cost[{fn.cls}.{last}: {child}: " + " + ".join(b) + "]"
                violations.append(dict(obligation=name, check="cost", has_input=False,
                                       what=f"C20 cost obligation refuted: {rel}::{q} renders child `{child}` {len(b)} times on one path, at "
                                            + " and ".join(f"`{x}`" for x in b)
                                            + " (nesting this construct in itself makes rebuild() calls grow exponentially)"))
        functions.append(dict(function=f"{rel}::{q}", contract="ghost calls[child] <= 1 per path", status="ok", obligations=n_ob, discharged=n_ok))
    return dict(name="cost", obligations=obligations, discharged=discharged, violations=violations, functions=functions,
                assumptions=["cost analysis: origin tracking through assignment, model_copy, coerce_expression, _clone_with_trivia and helper "
                             "parameters only; renders reached through other data flow are not attributed to a child (bounded call-count "
                             "families in bounded/b_c20.py cover those)"])


if __name__ == "__main__":
    r = run()
    print(r["obligations"], r["discharged"])
    for v in r["violations"]:
        print(v["what"])
