"""C15 / C17 / C10, proved part: inventory of process-wide mutable state.

Obligation per module-level mutable object and per memoising decorator in nix_manipulator:

    global-state[<module>: <name>]   the object is one of the known, individually justified ones

Parsing, rebuilding, editing and resolving distinct documents can only influence each other through
process-wide state.  The known objects are listed below with the argument that makes them harmless;
anything else (a new module-level dict/list/set, a cache, functools.lru_cache/cache, a mutable default
argument) is a refuted obligation: state that can couple documents, working directories or histories.
"""
from __future__ import annotations

import ast
import glob
import os

REPO = os.environ.get("NIMA_REPO", "/repo")

KNOWN = {
    ("nix_manipulator/resolution.py", "_CONTEXTS"): "identity-keyed registry validated by weak reference (contracts on _get_context/_store_context; bounded history check C10)",
    ("nix_manipulator/parser.py", "_PARSER_LOCAL"): "threading.local: one parser per thread",
    ("nix_manipulator/parser.py", "NIX_LANGUAGE"): "immutable grammar handle",
    ("nix_manipulator/expressions/trivia.py", "_SOURCE_BYTES"): "ContextVar, set/reset pair (source_bytes_context)",
    ("nix_manipulator/expressions/path.py", "_SOURCE_PATH"): "ContextVar, set/reset pair proved in contract parse_file",
    ("nix_manipulator/mapping.py", "EXPRESSION_TYPES"): "type registry, written only by register_expression at import time",
    ("nix_manipulator/mapping.py", "TREE_SITTER_TYPE_TO_EXPRESSION"): "type registry, written only by register_expression at import time",
}
KNOWN_REGISTRY_READERS = {
    ("nix_manipulator/expressions/identifier.py", "value"),  # getter and setter: resolve with the attached chain
    ("nix_manipulator/resolution.py", "scopes_for_owner"),  # inherited chain of an owner (its staleness on rec sets is a recorded finding)
    ("nix_manipulator/resolution.py", "attach_resolution_context"),
    ("nix_manipulator/resolution.py", "get_resolution_context"),
}
# the justification of a whitelisted object depends on what kind of object it is
KNOWN_KIND = {"_SOURCE_BYTES": "ContextVar", "_SOURCE_PATH": "ContextVar", "_PARSER_LOCAL": "local"}
MUTABLE_CALLS = {"dict", "list", "set", "defaultdict", "OrderedDict", "local", "ContextVar", "deque", "WeakValueDictionary",
                 "WeakKeyDictionary", "Counter"}
CACHE_DECORATORS = {"lru_cache", "cache", "cached_property", "memoize"}


def is_mutable_value(v):
    if isinstance(v, (ast.Dict, ast.List, ast.Set, ast.DictComp, ast.ListComp, ast.SetComp)):
        return True
    if isinstance(v, ast.Call):
        f = v.func
        name = f.id if isinstance(f, ast.Name) else (f.attr if isinstance(f, ast.Attribute) else "")
        return name in MUTABLE_CALLS or name in ("_load_language",)
    return False


MUTATING = {"append", "extend", "insert", "pop", "remove", "clear", "update", "add", "discard", "setdefault", "popitem", "set", "reset"}


def mutated_names():
    """Names that some function of the package mutates in place (method call, item assignment, del, global rebinding)."""
    out = set()
    for path in glob.glob(os.path.join(REPO, "nix_manipulator/**/*.py"), recursive=True):
        tree = ast.parse(open(path, encoding="utf-8").read())
        for n in ast.walk(tree):
            if isinstance(n, ast.Call) and isinstance(n.func, ast.Attribute) and n.func.attr in MUTATING and isinstance(n.func.value, ast.Name):
                out.add(n.func.value.id)
            elif isinstance(n, (ast.Assign, ast.AugAssign, ast.Delete)):
                tgts = n.targets if isinstance(n, (ast.Assign, ast.Delete)) else [n.target]
                for t in tgts:
                    if isinstance(t, ast.Subscript) and isinstance(t.value, ast.Name):
                        out.add(t.value.id)
                    if isinstance(t, ast.Attribute) and isinstance(t.value, ast.Name):
                        out.add(t.value.id)
            elif isinstance(n, ast.Global):
                out.update(n.names)
    return out


def run(tier="quick"):
    mutated = mutated_names()
    obligations = discharged = 0
    violations = []
    functions = []
    for path in sorted(glob.glob(os.path.join(REPO, "nix_manipulator/**/*.py"), recursive=True)):
        rel = os.path.relpath(path, REPO)
        tree = ast.parse(open(path, encoding="utf-8").read())
        for node in tree.body:
            targets = []
            value = None
            if isinstance(node, ast.Assign):
                targets, value = [t for t in node.targets if isinstance(t, ast.Name)], node.value
            elif isinstance(node, ast.AnnAssign) and isinstance(node.target, ast.Name) and node.value is not None:
                targets, value = [node.target], node.value
            for t in targets:
                if t.id == "__all__" or not is_mutable_value(value):
                    continue
                obligations += 1
                if (rel, t.id) in KNOWN and (KNOWN_KIND.get(t.id) is None or
                                             (isinstance(value, ast.Call) and ast.unparse(value.func).split(".")[-1] == KNOWN_KIND[t.id])):
                    discharged += 1
                elif t.id not in mutated and isinstance(value, (ast.Set, ast.List, ast.Dict)) and \
                        all(isinstance(e, ast.Constant) for e in ast.walk(value) if isinstance(e, ast.expr) and e is not value and not isinstance(e, (ast.Tuple, ast.Load))):
                    discharged += 1  # a literal table of constants that nothing in the package mutates
                else:
                    violations.append(dict(obligation=f"global-state[{rel}: {t.id}]", check="global-state", has_input=False,
                                           what=f"new process-wide mutable state {rel}: `{t.id} = {ast.unparse(value)[:60]}` "
                                                f"(can couple documents, working directories or histories)"))
        for node in ast.walk(tree):
            if isinstance(node, (ast.FunctionDef, ast.AsyncFunctionDef)):
                # module attributes rebound at run time (`global X` + assignment): process-wide state shared by all threads
                # and all documents - a ContextVar is what keeps such a value per context
                gl = {n for st in ast.walk(node) if isinstance(st, ast.Global) for n in st.names}
                if gl:
                    written = set()
                    for st in ast.walk(node):
                        tg = []
                        if isinstance(st, ast.Assign):
                            tg = st.targets
                        elif isinstance(st, (ast.AugAssign, ast.AnnAssign)):
                            tg = [st.target]
                        for t in tg:
                            for n in ast.walk(t):
                                if isinstance(n, ast.Name) and n.id in gl:
                                    written.add(n.id)
                    for name in sorted(written):
                        obligations += 1
                        if False:
                            pass  # (the whitelist of justified objects never covers a rebound module attribute)
                        else:
                            violations.append(dict(obligation=f"global-state[{rel}: global {name} rebound in {node.name}]", check="global-state",
                                                   has_input=False,
                                                   what=f"module attribute `{name}` of {rel} is rebound at run time in {node.name}(): state shared by every "
                                                        f"thread and document of the process (not a ContextVar)"))
                for d in node.decorator_list:
                    name = ast.unparse(d)
                    if any(c in name for c in CACHE_DECORATORS):
                        obligations += 1
                        violations.append(dict(obligation=f"global-state[{rel}: @{name.split('(')[0]} on {node.name}]", check="global-state",
                                               has_input=False,
                                               what=f"memoising decorator @{name} on {rel}::{node.name}: results depend on earlier calls in the process "
                                                    f"(keys compare with ==/hash, e.g. 0.0 == -0.0, 1 == True)"))
                for dflt in node.args.defaults + [x for x in node.args.kw_defaults if x is not None]:
                    if isinstance(dflt, (ast.Dict, ast.List, ast.Set)):
                        obligations += 1
                        violations.append(dict(obligation=f"global-state[{rel}: mutable default of {node.name}]", check="global-state", has_input=False,
                                               what=f"mutable default argument in {rel}::{node.name}"))
        # readers of the resolution-context registry: whoever asks "does this object already carry a context?" makes a lookup or an
        # edit depend on whether the object was visited before (a context is a snapshot of scopes; the three known readers use it
        # only to resolve with it, and re-attach on every access path).  A new reader is history dependence by construction.
        for node in ast.walk(tree):
            if isinstance(node, (ast.FunctionDef, ast.AsyncFunctionDef)):
                for c in ast.walk(node):
                    if isinstance(c, ast.Call) and isinstance(c.func, (ast.Name, ast.Attribute)):
                        fname = c.func.id if isinstance(c.func, ast.Name) else c.func.attr
                        if fname in ("get_resolution_context", "_get_context"):
                            obligations += 1
                            if (rel, node.name) in KNOWN_REGISTRY_READERS:
                                discharged += 1
                            else:
                                violations.append(dict(obligation=f"global-state[{rel}: {node.name} reads the resolution-context registry]",
                                                       check="global-state", has_input=False,
                                                       what=f"{rel}::{node.name} asks the resolution-context registry whether an object already has a "
                                                            f"context: what it does then depends on earlier lookups / edits of the same live document"))
        functions.append(dict(function=rel, contract="no unknown process-wide mutable state", status="ok"))
    return dict(name="global-state", obligations=obligations, discharged=discharged, violations=violations, functions=[],
                assumptions=["global-state inventory is syntactic: module-level names bound to mutable containers / ContextVar / "
                             "threading.local, memoising decorators, mutable default arguments; state hidden in other ways (class "
                             "attributes mutated at run time, closures) is not seen"])


if __name__ == "__main__":
    r = run()
    print(r["obligations"], r["discharged"])
    for v in r["violations"]:
        print(v["what"])
