"""C16 / C07 / C12, proved part: the command-line arguments reach `main` as they were typed.

The contract of `main` (contracts/c_cli.py) is stated over the values `args.npath` / `args.value` that
`parser.parse_args` hands out, and *assumes* that these are the argv texts.  That assumption is a property of
how `build_parser` declares the arguments; it is discharged here, syntactically, on the real source:

    cli-wiring[<sub-command>: <argument>]   the positional argument is declared with no `type`, `action`,
                                            `nargs`, `choices`, `default` or `const` (argparse then stores
                                            the argv string itself)
    cli-wiring[file option]                 `-f/--file` is an `argparse.FileType("r", encoding="utf-8")`
                                            with stdin as default (the text channel of C16)
    cli-wiring[no argv rewriting]           nothing in nix_manipulator/cli reads or rewrites `sys.argv`, and
                                            `parse_args` gets what `main` was given

A refuted obligation has no input by itself (`no-failing-input-found`); the subprocess stand-in of C16 and
the name / value stand-ins of C12 and C07 search for one.
"""
from __future__ import annotations

import ast
import glob
import os

REPO = os.environ.get("NIMA_REPO", "/repo")
PLAIN_KEYWORDS = {"help", "metavar"}
TEXT_ARGUMENTS = {"npath", "value"}


def run(tier="quick"):
    obligations = discharged = 0
    violations = []
    rel = "nix_manipulator/cli/parser.py"
    src = open(os.path.join(REPO, rel), encoding="utf-8").read()
    tree = ast.parse(src)

    def refute(name, what):
        violations.append(dict(obligation=f"cli-wiring[{name}]", check="cli-wiring", has_input=False, what=what))

    seen = set()
    for node in ast.walk(tree):
        if not (isinstance(node, ast.Call) and isinstance(node.func, ast.Attribute) and node.func.attr == "add_argument"):
            continue
        flags = [a.value for a in node.args if isinstance(a, ast.Constant) and isinstance(a.value, str)]
        owner = ast.unparse(node.func.value)
        if any(f in TEXT_ARGUMENTS for f in flags):
            name = f"{owner}: {flags[0]}"
            seen.add(flags[0])
            obligations += 1
            extra = sorted(k.arg for k in node.keywords if k.arg not in PLAIN_KEYWORDS)
            if extra or len(node.args) != 1:
                refute(name, f"C16/C07/C12 the positional argument `{flags[0]}` of {owner} is declared with {extra or 'several names'}: "
                             f"what `main` hands to the library is no longer the text that was typed ({rel}:{node.lineno})")
            else:
                discharged += 1
        elif "-f" in flags or "--file" in flags:
            obligations += 1
            kw = {k.arg: ast.unparse(k.value) for k in node.keywords}
            ok = kw.get("type", "").replace(" ", "") in ("argparse.FileType('r',encoding='utf-8')", 'argparse.FileType("r",encoding="utf-8")') \
                and kw.get("default") == "sys.stdin"
            if ok and not (set(kw) - {"type", "default", "metavar", "help"}):
                discharged += 1
            else:
                refute("file option", f"C16 the -f/--file option is no longer a UTF-8 text FileType with stdin as default: {kw} ({rel}:{node.lineno})")
    obligations += 1
    if TEXT_ARGUMENTS <= seen:
        discharged += 1
    else:
        refute("arguments declared", f"C16 expected positional arguments {sorted(TEXT_ARGUMENTS)} in {rel}, found {sorted(seen)}")

    # nothing in the cli package touches sys.argv; parse_args receives main's own parameter
    obligations += 1
    bad = []
    for path in sorted(glob.glob(os.path.join(REPO, "nix_manipulator/cli/*.py")) + [os.path.join(REPO, "nix_manipulator/__main__.py")]):
        t = ast.parse(open(path, encoding="utf-8").read())
        for n in ast.walk(t):
            if isinstance(n, ast.Attribute) and n.attr == "argv" and isinstance(n.value, ast.Name) and n.value.id == "sys":
                bad.append(f"{os.path.relpath(path, REPO)}:{n.lineno} uses sys.argv")
            if isinstance(n, ast.Call) and isinstance(n.func, ast.Attribute) and n.func.attr == "parse_args":
                if len(n.args) != 1 or not isinstance(n.args[0], ast.Name) or n.keywords:
                    bad.append(f"{os.path.relpath(path, REPO)}:{n.lineno} parse_args({', '.join(ast.unparse(a) for a in n.args)}) does not receive main's parameter as it is")
            # the standard streams keep the codec and error handler the interpreter gave them (a lenient handler would turn
            # undecodable input into text instead of an error)
            if (isinstance(n, ast.Attribute) and n.attr in ("reconfigure", "detach")) or (isinstance(n, ast.Name) and n.id == "reconfigure") or \
                    (isinstance(n, ast.Constant) and n.value in ("reconfigure", "detach")):
                bad.append(f"{os.path.relpath(path, REPO)}:{getattr(n, 'lineno', 0)} re-configures a standard stream")
            if isinstance(n, ast.Assign) and any(ast.unparse(t) in ("sys.stdin", "sys.stdout") for t in n.targets):
                bad.append(f"{os.path.relpath(path, REPO)}:{n.lineno} replaces a standard stream")
    if bad:
        refute("no argv rewriting", "C16 " + "; ".join(bad))
    else:
        discharged += 1
    return dict(name="cli-wiring", obligations=obligations, discharged=discharged, violations=violations, functions=[],
                assumptions=["cli-wiring is syntactic: argparse semantics for a positional argument declared with only help/metavar "
                             "(the argv string is stored unchanged) are assumed"])


if __name__ == "__main__":
    r = run()
    print(r["obligations"], r["discharged"])
    for v in r["violations"]:
        print(v["what"])
