"""C15, proved part: frame analysis of the rebuild call graph.

Contract on every function reachable from a `rebuild` / `rebuild_scoped` / `add_trivia` /
`__str__` method:   modifies {}   on everything that existed before the call.
The analysis is modular (a callee is represented by its summary: which parameters it mutates) and
generates one obligation per mutation site of the real source:

    frame[<function>#<k>: <statement text>]   the mutated object is fresh in this call

An object is *fresh* when it was created in this call: list/dict/set literal, comprehension,
list(x), x + y on lists, sorted(), a constructor call, copy(x) / x.model_copy(...) / replace(x, ...)
(top level only: the fields of a copy are shared with the original).  Everything reachable from
`self`, a parameter or a module global is *shared*.  A refuted obligation has no input by itself;
the bounded snapshot check (bounded/b_c15.py) is the search for one.

Also checked here (C15 footprint / determinism sources): no function of the call graph reads a
module-level mutable, os.getcwd/os.environ, id()/hash() for ordering, or iterates over a set.
"""
from __future__ import annotations

import ast
import glob
import os

REPO = os.environ.get("NIMA_REPO", "/repo")
ROOTS = ("rebuild", "rebuild_scoped", "add_trivia", "__str__", "_render_value")
MUTATORS = {"append", "extend", "insert", "pop", "remove", "clear", "sort", "reverse", "update", "add", "discard", "setdefault", "popitem"}
FRESH_CALLS = {"list", "dict", "set", "sorted", "tuple", "str", "int", "bool", "copy", "deepcopy", "replace", "reversed", "zip", "enumerate",
               "range", "len", "isinstance", "max", "min", "any", "all", "repr", "format", "cast", "getattr", "frozenset", "iter", "next"}
FRESH_METHODS = {"model_copy", "copy", "split", "splitlines", "join", "strip", "rstrip", "lstrip", "replace", "format", "rebuild",
                 "rebuild_scoped", "add_trivia", "encode", "decode", "with_indent", "rsplit", "items", "keys", "values", "get",
                 "startswith", "endswith", "count", "find", "rfind", "lower", "upper", "partition", "rpartition", "expandtabs"}


class Fn:
    def __init__(self, module, qual, node, cls):
        self.module = module
        self.qual = qual
        self.node = node
        self.cls = cls
        self.params = [a.arg for a in node.args.posonlyargs + node.args.args + node.args.kwonlyargs]
        self.mutated_params: set = set()
        self.sites: list = []  # (ordinal, text, target_desc, fresh: bool, lineno)
        self.calls: set = set()
        self.footprint: list = []


def load_functions():
    fns = {}
    files = sorted(glob.glob(os.path.join(REPO, "nix_manipulator/expressions/**/*.py"), recursive=True))
    files += [os.path.join(REPO, "nix_manipulator/resolution.py")]
    for path in files:
        rel = os.path.relpath(path, REPO)
        tree = ast.parse(open(path, encoding="utf-8").read())

        def visit(body, prefix, cls):
            for n in body:
                if isinstance(n, ast.FunctionDef):
                    q = prefix + n.name
                    fns[(rel, q)] = Fn(rel, q, n, cls)
                    visit(n.body, q + ".", cls)
                elif isinstance(n, ast.ClassDef):
                    visit(n.body, prefix + n.name + ".", n.name)

        visit(tree.body, "", None)
    return fns


def called_names(node):
    out = set()
    for n in ast.walk(node):
        if isinstance(n, ast.Call):
            f = n.func
            if isinstance(f, ast.Name):
                out.add(f.id)
            elif isinstance(f, ast.Attribute):
                out.add(f.attr)
    return out


def reachable(fns):
    by_name = {}
    for (rel, q), fn in fns.items():
        by_name.setdefault(q.split(".")[-1], []).append(fn)
    work = [fn for (rel, q), fn in fns.items() if q.split(".")[-1] in ROOTS and fn.cls is not None]
    seen = set()
    while work:
        fn = work.pop()
        if id(fn) in seen:
            continue
        seen.add(id(fn))
        own_nested = {n.name for n in ast.walk(fn.node) if isinstance(n, ast.FunctionDef) and n is not fn.node}
        for name in called_names(fn.node):
            if name in ("from_cst",) or name.startswith("parse_"):
                continue
            for cand in by_name.get(name, []):
                # nested helper of this very function, a method, or a module-level function
                if cand.qual.count(".") >= 1 and cand.cls is None and not cand.qual.startswith(fn.qual + ".") \
                        and not any(cand.qual.startswith(p.qual + ".") for p in fns.values() if id(p) in seen):
                    continue
                work.append(cand)
    return [fn for fn in fns.values() if id(fn) in seen]


class Analyzer(ast.NodeVisitor):
    """Forward, flow-insensitive-over-branches freshness analysis of one function body."""

    def __init__(self, fn: Fn, summaries, inherited=None, owned=None):
        self.fn = fn
        self.fresh: dict[str, bool] = dict(inherited or {})
        # owned containers: local lists created empty here whose elements are all freshly constructed
        # objects; maps name -> {attribute: constructed fresh at every append site}
        self.owned: dict[str, dict] = dict(owned or {})
        self.summaries = summaries
        self.k = 0
        for p in fn.params:
            self.fresh[p] = False
        if fn.qual.endswith("__post_init__") or fn.qual.endswith("__init__"):
            self.fresh["self"] = True

    # -- freshness of an expression
    def is_fresh(self, e) -> bool:
        if isinstance(e, (ast.List, ast.Dict, ast.Set, ast.ListComp, ast.DictComp, ast.SetComp, ast.GeneratorExp, ast.Tuple,
                          ast.Constant, ast.JoinedStr, ast.Compare, ast.BoolOp, ast.UnaryOp, ast.Lambda)):
            if isinstance(e, ast.BoolOp):
                return all(self.is_fresh(v) for v in e.values)
            return True
        if isinstance(e, ast.BinOp):
            return True  # new list / str / number
        if isinstance(e, ast.IfExp):
            return self.is_fresh(e.body) and self.is_fresh(e.orelse)
        if isinstance(e, ast.Name):
            return self.fresh.get(e.id, False)
        if isinstance(e, ast.Call):
            f = e.func
            if isinstance(f, ast.Name):
                if f.id in FRESH_CALLS or f.id[:1].isupper():
                    return True
                if f.id == "coerce_expression":
                    return False
                return False
            if isinstance(f, ast.Attribute):
                if f.attr in FRESH_METHODS or f.attr[:1].isupper():
                    return True
            return False
        # elements of an owned container, and those of their attributes that were constructed fresh
        if isinstance(e, ast.Subscript) and isinstance(e.value, ast.Name) and e.value.id in self.owned:
            return True
        if isinstance(e, ast.Attribute) and isinstance(e.value, ast.Subscript) and isinstance(e.value.value, ast.Name) \
                and e.value.value.id in self.owned:
            return self.owned[e.value.value.id].get(e.attr, False)
        # attributes / subscripts of anything else (also of a fresh copy) are shared
        return False

    def note(self, node, target, what):
        fresh = self.is_fresh(target)
        text = ast.unparse(node).split("\n")[0][:90]
        self.k += 1
        self.fn.sites.append(dict(k=self.k, text=text, target=ast.unparse(target)[:60], fresh=fresh, what=what, line=node.lineno))
        if not fresh:
            base = target
            while isinstance(base, (ast.Attribute, ast.Subscript)):
                base = base.value
            if isinstance(base, ast.Name) and base.id in self.fn.params and not isinstance(target, ast.Name):
                # mutation of something reachable from a parameter: recorded at the parameter too
                pass
            if isinstance(target, ast.Name) and target.id in self.fn.params:
                self.fn.mutated_params.add(target.id)

    def assign_target(self, t, value):
        if isinstance(t, ast.Name):
            self.fresh[t.id] = self.is_fresh(value) if value is not None else False
            if not getattr(self, "frozen", False):
                self.owned.pop(t.id, None)
                if isinstance(value, ast.List) and not value.elts:
                    self.owned[t.id] = {"$init": True}
        elif isinstance(t, (ast.Tuple, ast.List)):
            for e in t.elts:
                self.assign_target(e, None)
        elif isinstance(t, ast.Attribute):
            self.note(t, t.value, "attribute assignment")
        elif isinstance(t, ast.Subscript):
            self.note(t, t.value, "item assignment")

    def visit_Assign(self, n):
        self.generic_visit(n.value)
        for t in n.targets:
            if isinstance(t, ast.Attribute) and isinstance(t.value, ast.Subscript) and isinstance(t.value.value, ast.Name) \
                    and t.value.value.id in self.owned:
                # re-assignment of an attribute of an owned element: stays fresh only if the new value is fresh
                cur = self.owned[t.value.value.id]
                if not cur.get("$init"):
                    cur[t.attr] = cur.get(t.attr, False) and self.is_fresh(n.value)
                elif not self.is_fresh(n.value):
                    cur["$tainted:" + t.attr] = True
            self.assign_target(t, n.value)

    def visit_AnnAssign(self, n):
        if n.value is not None:
            self.generic_visit(n.value)
            self.assign_target(n.target, n.value)

    def visit_AugAssign(self, n):
        self.generic_visit(n.value)
        if isinstance(n.target, ast.Name):
            # x += [..] mutates a shared list in place
            if not self.fresh.get(n.target.id, False) and n.target.id in self.fn.params:
                self.note(n, n.target, "augmented assignment on a parameter")
        else:
            self.assign_target(n.target, None)

    def visit_Delete(self, n):
        for t in n.targets:
            if isinstance(t, (ast.Subscript, ast.Attribute)):
                self.note(n, t.value, "del")

    def visit_For(self, n):
        self.generic_visit(n.iter)
        self.assign_target(n.target, None)
        for s in n.body + n.orelse:
            self.visit(s)

    def visit_With(self, n):
        for it in n.items:
            self.generic_visit(it.context_expr)
            if it.optional_vars is not None:
                self.assign_target(it.optional_vars, None)
        for s in n.body:
            self.visit(s)

    def visit_FunctionDef(self, n):
        if n is self.fn.node:
            for s in n.body:
                self.visit(s)
        # nested defs are analysed as their own functions (closures see the enclosing freshness pessimistically)

    def visit_Call(self, n):
        f = n.func
        if isinstance(f, ast.Attribute) and f.attr in MUTATORS:
            # str/bytes have none of these methods; dict.update/set.add on locals are covered by freshness
            self.note(n, f.value, f"call .{f.attr}()")
            if f.attr == "append" and isinstance(f.value, ast.Name) and f.value.id in self.owned and n.args and not getattr(self, "frozen", False):
                a0 = n.args[0]
                if isinstance(a0, ast.Call) and isinstance(a0.func, ast.Name) and a0.func.id[:1] in "_ABCDEFGHIJKLMNOPQRSTUVWXYZ":
                    attrs = {k.arg: self.is_fresh(k.value) for k in a0.keywords if k.arg}
                    cur = self.owned[f.value.id]
                    if cur.get("$init"):
                        tainted = {k.split(":", 1)[1] for k in cur if k.startswith("$tainted:")}
                        cur.clear()
                        cur.update({k: v and k not in tainted for k, v in attrs.items()})
                    else:
                        for k in list(cur):
                            cur[k] = cur[k] and attrs.get(k, False)
                else:
                    # something that is not a fresh construction is stored: no longer an owned container
                    del self.owned[f.value.id]
        # callee summaries: arguments passed for parameters the callee mutates
        name = f.id if isinstance(f, ast.Name) else (f.attr if isinstance(f, ast.Attribute) else None)
        for cand in self.summaries.get(name, []):
            params = [p for p in cand.params if p != "self"] if isinstance(f, ast.Attribute) else cand.params
            for i, a in enumerate(n.args):
                if i < len(params) and params[i] in cand.mutated_params:
                    self.note(n, a, f"argument for parameter `{params[i]}` that {cand.qual} mutates")
            for kw in n.keywords:
                if kw.arg in cand.mutated_params:
                    self.note(n, kw.value, f"argument for parameter `{kw.arg}` that {cand.qual} mutates")
            if isinstance(f, ast.Attribute) and "self" in cand.mutated_params and cand.cls is not None:
                self.note(n, f.value, f"receiver of {cand.qual}, which mutates self")
        # dataclasses.replace(obj, **kw) re-runs __post_init__, which re-owns the `scope` container it is given
        if name == "replace" and n.args:
            kws = {k.arg for k in n.keywords if k.arg}
            star = [k.value for k in n.keywords if k.arg is None]
            has_scope = "scope" in kws
            for sv in star:
                if isinstance(sv, ast.Name) and self.fresh.get("$dict:" + sv.id + ":scope"):
                    has_scope = True
            if not has_scope and self.fn.cls is not None and self.fn.module.endswith("expression.py"):
                self.k += 1
                self.fn.sites.append(dict(k=self.k, text=ast.unparse(n)[:90], target="<original>.scope (shared with the copy)", fresh=False,
                                          what="replace() without a fresh `scope`: __post_init__ re-points Scope.owner of the shared container",
                                          line=n.lineno))
        self.generic_visit(n)

    def visit_Dict(self, n):
        self.generic_visit(n)


def analyse(fn: Fn, summaries, all_fns=None):
    fn.sites = []
    inherited, owned = None, None
    if all_fns is not None and "." in fn.qual:
        parent_q = fn.qual.rsplit(".", 1)[0]
        parent = all_fns.get((fn.module, parent_q))
        if parent is not None and isinstance(parent.node, ast.FunctionDef) and getattr(parent, "final_fresh", None) is not None:
            own = set(fn.params) | {t.id for st in ast.walk(fn.node) for t in (st.targets if isinstance(st, ast.Assign) else [])
                                    if isinstance(t, ast.Name)}
            nonlocals = {x for st in ast.walk(fn.node) if isinstance(st, ast.Nonlocal) for x in st.names}
            inherited = {k: v for k, v in parent.final_fresh.items() if k not in own or k in nonlocals}
            owned = {k: dict(v) for k, v in parent.final_owned.items() if k not in own or k in nonlocals}
    def prescan(an):
        for st in ast.walk(fn.node):
            if isinstance(st, ast.Assign) and isinstance(st.value, ast.Dict) and len(st.targets) == 1 and isinstance(st.targets[0], ast.Name):
                for k, v in zip(st.value.keys, st.value.values):
                    if isinstance(k, ast.Constant) and k.value == "scope" and an.is_fresh(v):
                        an.fresh["$dict:" + st.targets[0].id + ":scope"] = True

    a = Analyzer(fn, summaries, inherited, owned)
    prescan(a)
    # dict literals {**update, "scope": Scope(...)} assigned to a name: remember that the name carries a fresh scope
    for st in ast.walk(fn.node):
        if isinstance(st, ast.Assign) and isinstance(st.value, ast.Dict) and len(st.targets) == 1 and isinstance(st.targets[0], ast.Name):
            for k, v in zip(st.value.keys, st.value.values):
                if isinstance(k, ast.Constant) and k.value == "scope" and a.is_fresh(v):
                    a.fresh["$dict:" + st.targets[0].id + ":scope"] = True
    a.visit(fn.node)
    # second pass with the owned-container facts of the whole body (append sites may follow uses in source order)
    fn.sites = []
    pass1_owned = {k: dict(v) for k, v in a.owned.items()}
    owned2 = {k: {x: y for x, y in v.items() if x != "$init"} for k, v in a.owned.items()}
    a = Analyzer(fn, summaries, inherited, owned2)
    prescan(a)
    a.frozen = True
    a.visit(fn.node)
    fn.final_fresh = dict(a.fresh)
    fn.final_owned = pass1_owned
    return fn


FOOTPRINT_BAD = {"getcwd", "environ", "getenv", "urandom", "random", "time", "now"}


def footprint(fn: Fn):
    bad = []
    for n in ast.walk(fn.node):
        if isinstance(n, ast.Attribute) and n.attr in FOOTPRINT_BAD:
            bad.append(f"reads {ast.unparse(n)}")
        if isinstance(n, ast.Call) and isinstance(n.func, ast.Name) and n.func.id in ("id", "hash") :
            bad.append(f"uses {n.func.id}()")
        if isinstance(n, ast.For) and isinstance(n.iter, (ast.Set, ast.SetComp)):
            bad.append("iterates over a set")
        if isinstance(n, ast.Global):
            bad.append(f"global {n.names}")
    return bad


def run(tier="quick"):
    fns = load_functions()
    reach = reachable(fns)
    summaries = {}
    for fn in reach:
        summaries.setdefault(fn.qual.split(".")[-1], []).append(fn)
    # fixpoint on mutated-parameter summaries
    for _ in range(6):
        before = {id(fn): set(fn.mutated_params) for fn in reach}
        for fn in sorted(reach, key=lambda f: f.qual.count(".")):  # enclosing functions before their closures
            analyse(fn, summaries, fns)
            for s in fn.sites:
                if not s["fresh"]:
                    tgt = s["target"]
                    if tgt in fn.params:
                        fn.mutated_params.add(tgt)
        if all(before[id(fn)] == fn.mutated_params for fn in reach):
            break
    obligations = 0
    discharged = 0
    violations = []
    functions = []
    for fn in sorted(reach, key=lambda f: (f.module, f.qual)):
        n_sites = len(fn.sites)
        ok = 0
        is_entry = fn.qual.split(".")[-1] in ROOTS
        for s in fn.sites:
            # inside helpers, mutating a *parameter* is the helper's documented job (callers are checked
            # through the summary); mutating anything else that is shared is a frame violation
            param_mut = s["target"] in fn.params and not is_entry and s["target"] != "self"
            obligations += 1
            if s["fresh"] or param_mut:
                ok += 1
                discharged += 1
                continue
            name = f"frame[{fn.module}::{fn.qual}: {s['text']}]"
            violations.append(dict(obligation=name, what=f"C15 frame obligation refuted: {fn.module}::{fn.qual} line {s['line']}: "
                                   f"{s['what']} on `{s['target']}`, which is not fresh in this call ({s['text']})",
                                   has_input=False, check="purity"))
        for b in footprint(fn):
            obligations += 1
            if b.startswith("uses id()") and fn.module.endswith("resolution.py"):
                discharged += 1
                continue
            name = f"footprint[{fn.module}::{fn.qual}: {b}]"
            violations.append(dict(obligation=name, what=f"C15 footprint obligation refuted: {fn.module}::{fn.qual} {b}", has_input=False, check="purity"))
        functions.append(dict(function=f"{fn.module}::{fn.qual}", contract="modifies {} (frame)", status="ok", obligations=n_sites, discharged=ok))
    return dict(name="purity", obligations=obligations, discharged=discharged, violations=violations, functions=functions,
                assumptions=["freshness analysis: objects returned by calls outside the fresh-call table are treated as shared (sound for the "
                             "frame obligation); aliasing of a fresh object into the original tree and later mutation through the alias is "
                             "not tracked (the bounded snapshot check covers it)",
                             "dynamic dispatch of .rebuild() resolved by name to every rebuild method"],
                functions_analysed=len(reach))


if __name__ == "__main__":
    r = run()
    print(r["obligations"], r["discharged"], r["functions_analysed"])
    for v in r["violations"]:
        print(v["what"])
