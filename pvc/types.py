"""Type descriptors used in contracts (parameter / result / local shapes) and z3 sort registry."""
from __future__ import annotations

from dataclasses import dataclass

import z3


@dataclass(frozen=True)
class T:
    name: str
    args: tuple = ()

    def __repr__(self):
        return self.name + (repr(list(self.args)) if self.args else "")


Int = T("Int")
Bool = T("Bool")
Str = T("Str")
Char = T("Char")  # str of length 1
Bytes = T("Bytes")
NoneT = T("None")
StrJoin = T("StrJoin")  # list[str] carried as (joined, n)


def Opt(t):
    return T("Opt", (t,))


def Tup(*ts):
    return T("Tup", tuple(ts))


def SeqOf(kind):
    return T("Seq", (kind,))


def ArrOf(kind):
    """Immutable list/tuple parameter that is only indexed, sliced, measured and iterated (see values.VArr)."""
    return T("Arr", (kind,))


def Rec(cls):
    return T("Rec", (cls,))


def Ref(cls=None):
    return T("Ref", (cls,))


def ListRef(cls=None):
    """Heap list of references."""
    return T("ListRef", (cls,))


def OneOf(*ts):
    """Entry-time case split over alternative shapes."""
    return T("OneOf", tuple(ts))


Opaque = T("Opaque")


def ClassOf(name):
    """The class object `name` defined in the contract's target module (the `cls` of a classmethod)."""
    return T("Class", (name,))


def Lit(value):
    """A literal constant (used with OneOf for entry-time case splits over flag values)."""
    return T("Lit", (value,))


def Obj(**fields):
    """Immutable struct value with named fields (no identity, no heap)."""
    return T("Obj", tuple(sorted(fields.items())))

# ---------------------------------------------------------------------------------------------
# element kinds of pure sequences / records

_RECORDS: dict[str, tuple] = {}  # cls name -> (z3 datatype, [(field, kind)])


def declare_record(cls: str, fields: list[tuple[str, str]]):
    if cls in _RECORDS:
        return _RECORDS[cls]
    dt = z3.Datatype(cls)
    dt.declare("mk_" + cls, *[(f, kind_sort(k)) for f, k in fields])
    dt = dt.create()
    _RECORDS[cls] = (dt, fields)
    return _RECORDS[cls]


def record(cls):
    return _RECORDS[cls]


def has_record(cls):
    return cls in _RECORDS


_OPTINT = None


def optint_sort():
    global _OPTINT
    if _OPTINT is None:
        dt = z3.Datatype("OptInt")
        dt.declare("none")
        dt.declare("some", ("val", z3.IntSort()))
        _OPTINT = dt.create()
    return _OPTINT


def kind_sort(kind: str):
    if kind == "optint":
        return optint_sort()
    if kind == "str":
        return z3.StringSort()
    if kind == "int":
        return z3.IntSort()
    if kind == "bool":
        return z3.BoolSort()
    if kind in ("ref", "opaque"):
        return z3.IntSort()
    if kind in _RECORDS:
        return _RECORDS[kind][0]
    raise KeyError(kind)
