"""pvc engine: forward symbolic execution of real /repo functions (Python `ast`) with path
splitting, loops cut at invariants, modular calls by contract, and generation of named proof
obligations as closed SMT queries.

Path exploration uses re-execution with a decision oracle: the interpreter is a plain recursive
evaluator; every branch point asks `path.choose(n)`; the driver replays decision prefixes until all
alternatives are explored.  Loops never unroll (they are cut at their invariant), so all paths are
finite.
"""
from __future__ import annotations

import ast
import re as _re
import time
from dataclasses import dataclass, field
from typing import Any

import z3

from . import types as ty
from .contract import Contract, Loop
from .source import (MissingFunction, Module, OutOfSubset, dotted_to_relpath,
                     find_function, load_module, loops_in, strip_docstring)
from .spec import SPECS, Spec
from .values import (V, VBool, VBound, VClosure, VInt, VMatch, VNone, VOpaque, VOptInt, VPy,
                     VRec, VRef, VSeq, VStr, VStrJoin, VTuple, is_concrete_bool)

# -------------------------------------------------------------------------------------------
# control-flow signals


class PathEnd(Exception):
    """The path ends here (after an inv-preserve check, or because it is infeasible)."""


class Ret(Exception):
    def __init__(self, value):
        self.value = value


class Brk(Exception):
    pass


class Cont(Exception):
    pass


class Raised(Exception):
    def __init__(self, exc: str, node=None):
        self.exc = exc
        self.node = node


EXC_PARENTS = {
    "NixSyntaxError": "SyntaxError",
    "SyntaxError": "Exception",
    "KeyError": "LookupError",
    "IndexError": "LookupError",
    "LookupError": "Exception",
    "ValueError": "Exception",
    "TypeError": "Exception",
    "ResolutionError": "Exception",
    "AttributeError": "Exception",
    "AssertionError": "Exception",
    "NotImplementedError": "RuntimeError",
    "RuntimeError": "Exception",
    "OSError": "Exception",
    "FileNotFoundError": "OSError",
    "UnicodeDecodeError": "ValueError",
    "Exception": "BaseException",
}


def exc_is(exc: str, handler: str) -> bool:
    cur = exc
    while cur is not None:
        if cur == handler:
            return True
        cur = EXC_PARENTS.get(cur)
    return False


# -------------------------------------------------------------------------------------------


@dataclass
class Obligation:
    func: str
    kind: str
    label: str  # clause text or description
    line: int
    assumptions: list  # z3 BoolRefs
    goal: Any  # z3 BoolRef
    path_id: int
    must_fail: bool = False  # canary: expected to be refuted
    props: tuple = ()
    inputs: dict = field(default_factory=dict)  # name -> z3 term of the entry values (for models)
    aux: bool = False  # encoding side-condition: failure => undecided, never a violation

    @property
    def name(self):
        return f"{self.func}/{self.kind}[{self.label}]"


class Env:
    def __init__(self, parent=None, module=None):
        self.vars: dict[str, V] = {}
        self.parent = parent
        self.nonlocals: set[str] = set()
        self.module = module if module is not None else (parent.module if parent else None)

    def lookup(self, name):
        e = self
        while e is not None:
            if name in e.vars:
                return e.vars[name]
            e = e.parent
        return None

    def owner(self, name):
        e = self
        while e is not None:
            if name in e.vars:
                return e
            e = e.parent
        return None

    def assign(self, name, value):
        if name in self.nonlocals:
            o = self.parent.owner(name) if self.parent else None
            if o is None:
                raise OutOfSubset("env", f"nonlocal {name} unbound")
            o.vars[name] = value
        else:
            self.vars[name] = value

    def all_names(self):
        names = set()
        e = self
        while e is not None:
            names |= set(e.vars)
            e = e.parent
        return names


class Oracle:
    def __init__(self, prefix):
        self.prefix = list(prefix)
        self.trace: list[tuple[int, int]] = []

    def choose(self, n: int) -> int:
        k = len(self.trace)
        c = self.prefix[k] if k < len(self.prefix) else 0
        self.trace.append((c, n))
        return c


_FRESH = [0]


def S(s: str):
    return z3.StringVal(s)


def I(n: int):
    return z3.IntVal(n)


def is_str_lit(t):
    return z3.is_string_value(t)


def after_last(path, s, sep):
    """Text after the last occurrence of the one-character string `sep` in s (s itself if there is none),
    introduced by its characterisation  s = pre ++ sep ++ tail,  sep not in tail  (no seq.last_indexof)."""
    cache = path.__dict__.setdefault("_after_last", {})
    key = (s.get_id(), sep.get_id())
    if key in cache:
        return cache[key]
    pre = path.fresh("al.pre", z3.StringSort())
    tail = path.fresh("al.tail", z3.StringSort())
    res = path.fresh("al", z3.StringSort())
    path.add_axiom(z3.If(z3.Contains(s, sep),
                         z3.And(s == z3.Concat(pre, sep, tail), z3.Not(z3.Contains(tail, sep)), res == tail),
                         res == s))
    cache[key] = (res, pre)
    return cache[key]


def spaces(n):
    """`" " * n` as an uninterpreted function with its two defining facts (instantiated)."""
    f = z3.Function("spaces", z3.IntSort(), z3.StringSort())
    return f(n)


SPACE_RE = None


def space_axioms(n):
    t = spaces(n)
    return [
        z3.Length(t) == z3.If(n > 0, n, 0),
        z3.InRe(t, z3.Star(z3.Re(" "))),
        z3.Not(z3.Contains(t, z3.StringVal("\n"))),
        z3.Not(z3.Contains(t, z3.StringVal("\t"))),
    ]


def _has_quant(t, _seen=None):
    if z3.is_quantifier(t):
        return True
    if _seen is None:
        _seen = set()
    if t.get_id() in _seen:
        return False
    _seen.add(t.get_id())
    return any(_has_quant(c, _seen) for c in t.children())


class Path:
    """State of one explored path."""

    def __init__(self, ctx: "Ctx", oracle: Oracle, pid: int):
        self.ctx = ctx
        self.oracle = oracle
        self.pid = pid
        self.pc: list = []
        self.axioms: list = []
        self.triggers: dict = {}  # fact id -> term to use as E-matching pattern when the fact is generalised over bound variables
        self.solver = z3.Solver()
        self.solver.set("timeout", ctx.branch_timeout_ms)
        self.counter = 0
        self.heap: dict[str, Any] = {}
        self.alloc = None
        self.inputs: dict[str, Any] = {}
        self.prefix_slices: dict[int, list] = {}  # id(x) -> [(x, e)]
        self.fold_slices: list = []  # (fold spec, x, e)
        self.fold_whole: list = []  # (fold spec, x)
        self.unfolded: set = set()
        self.trace_lines: list[int] = []
        self.dead = False
        self._dirty = False

    # -- fresh symbols (deterministic per path so re-execution gives identical terms)
    def fresh(self, base: str, sort):
        self.counter += 1
        return z3.Const(f"{base}!{self.counter}", sort)

    def choose(self, n):
        return self.oracle.choose(n)

    def assume(self, cond, check=True, trigger=None):
        if trigger is not None:
            self.triggers[cond.get_id()] = trigger
        if z3.is_true(cond):
            if check and self._dirty:
                pass
            else:
                return
        else:
            self.pc.append(cond)
            # quantified facts stay out of the (cheap) feasibility solver: they rarely prune and make it slow
            if not _has_quant(cond):
                self.solver.add(cond)
                self._dirty = True
        if check and self._dirty:
            self._dirty = False
            r = self.solver.check()
            if r == z3.unsat:
                self.dead = True
                raise PathEnd()

    def add_axiom(self, ax, trigger=None):
        if trigger is not None:
            self.triggers[ax.get_id()] = trigger
        self.axioms.append(ax)
        if not _has_quant(ax):
            self.solver.add(ax)

    def entails_quick(self, cond) -> bool:
        """pc => cond, decided cheaply (unknown counts as no)."""
        self.solver.push()
        try:
            self.solver.add(z3.Not(cond))
            return self.solver.check() == z3.unsat
        finally:
            self.solver.pop()

    def branch(self, cond) -> bool:
        """Fork on a z3 Bool; returns the Python truth value on this path."""
        s = z3.simplify(cond)
        if z3.is_true(s):
            return True
        if z3.is_false(s):
            return False
        c = self.choose(2)
        if c == 0:
            self.assume(s)
            return True
        self.assume(z3.Not(s))
        return False

    def finalize_axioms(self):
        """Prefix lemmas and fold unfoldings between registered slice terms (see spec.py)."""
        out = []
        for xid, lst in self.prefix_slices.items():
            uniq = []
            seen = set()
            for x, e in lst:
                k = e.get_id()
                if k not in seen:
                    seen.add(k)
                    uniq.append((x, e))
            for x, e1 in uniq:
                for _, e2 in uniq:
                    d = z3.simplify(e2 - e1)
                    if z3.is_int_value(d) and 1 <= d.as_long() <= 3:
                        k = d.as_long()
                        chars = [z3.SubString(x, e1 + j, 1) for j in range(k)]
                        out.append(
                            z3.Implies(
                                z3.And(e1 >= 0, e2 <= z3.Length(x)),
                                z3.SubString(x, 0, e2) == z3.Concat(z3.SubString(x, 0, e1), *chars),
                            )
                        )
            # whole string
            for x, e in uniq:
                out.append(z3.Implies(e == z3.Length(x), z3.SubString(x, 0, e) == x))
                out.append(z3.Implies(e == 0, z3.SubString(x, 0, e) == S("")))
        done = set()
        for fspec, x, e1 in self.fold_slices:
            for fspec2, x2, e2 in self.fold_slices:
                if fspec2 is not fspec or x2.get_id() != x.get_id():
                    continue
                d = z3.simplify(e2 - e1)
                if z3.is_int_value(d) and 1 <= d.as_long() <= 3:
                    key = (fspec.name, x.get_id(), e1.get_id(), e2.get_id())
                    if key in done:
                        continue
                    done.add(key)
                    k = d.as_long()
                    st = [fold_fn(fspec, i)(z3.SubString(x, 0, e1)) for i in range(len(fspec.sorts))]
                    for j in range(k):
                        st = self.ctx.fold_step(self, fspec, st, z3.SubString(x, e1 + j, 1))
                    tgt = z3.SubString(x, 0, e2)
                    eqs = [fold_fn(fspec, i)(tgt) == st[i] for i in range(len(fspec.sorts))]
                    out.append(z3.Implies(z3.And(e1 >= 0, e2 <= z3.Length(x)), z3.And(*eqs)))
            key0 = (fspec.name, x.get_id(), e1.get_id(), "init")
            if key0 not in done:
                done.add(key0)
                tgt = z3.SubString(x, 0, e1)
                eqs = [fold_fn(fspec, i)(tgt) == const_of(fspec.init[i], fspec.sorts[i]) for i in range(len(fspec.sorts))]
                out.append(z3.Implies(e1 <= 0, z3.And(*eqs)))
        # absorbing-predicate lemmas (spec.py): P(f(x[:e1])) and e1 <= e2 ==> P(f(x[:e2]))
        from .spec import LEMMAS

        for lem in LEMMAS:
            items = []
            seen = set()
            for fspec, x, e in self.fold_slices:
                if fspec.name != lem.fold:
                    continue
                k = (x.get_id(), e.get_id())
                if k in seen:
                    continue
                seen.add(k)
                items.append((fspec, x, e))
            for fspec, x, e1 in items:
                for _, x2, e2 in items:
                    if x2.get_id() != x.get_id() or e1.get_id() == e2.get_id():
                        continue
                    t1 = x if z3.eq(e1, z3.Length(x)) else z3.SubString(x, 0, e1)
                    t2 = x if z3.eq(e2, z3.Length(x)) else z3.SubString(x, 0, e2)
                    p1 = self.ctx.lemma_pred(self, lem, fspec, t1)
                    p2 = self.ctx.lemma_pred(self, lem, fspec, t2)
                    out.append(z3.Implies(z3.And(e1 >= 0, e1 <= e2, e2 <= z3.Length(x), p1), p2))
        return out


def const_of(v, kind=None):
    if kind is not None and kind.startswith("seq:"):
        assert len(v) == 0
        return z3.Empty(z3.SeqSort(ty.kind_sort(kind[4:])))
    if isinstance(v, bool):
        return z3.BoolVal(v)
    if isinstance(v, int):
        return I(v)
    if isinstance(v, str):
        return S(v)
    raise OutOfSubset("spec", f"constant {v!r}")


def native_const(v, kind):
    """z3 constant of a native spec value of the given kind."""
    if kind.startswith("seq:"):
        ek = kind[4:]
        if not v:
            return z3.Empty(z3.SeqSort(ty.kind_sort(ek)))
        us = [z3.Unit(native_const(x, ek)) for x in v]
        return us[0] if len(us) == 1 else z3.Concat(*us)
    if ty.has_record(kind):
        dt, fields = ty.record(kind)
        return dt.constructor(0)(*[native_const(x, k) for x, (f, k) in zip(v, fields)])
    return const_of(v)


_SORTS = {"int": z3.IntSort, "str": z3.StringSort, "bool": z3.BoolSort}


def fold_fn(fspec: Spec, comp: int):
    k = fspec.sorts[comp]
    if k.startswith("seq:"):
        rng = z3.SeqSort(ty.kind_sort(k[4:]))
    else:
        rng = ty.kind_sort(k) if k not in _SORTS else _SORTS[k]()
    return z3.Function(f"{fspec.name}__{comp}", z3.StringSort(), rng)


def wrap_kind(kind: str, t) -> V:
    if kind == "int":
        return VInt(t)
    if kind == "str":
        return VStr(t)
    if kind == "bool":
        return VBool(t)
    if kind == "optint":
        return VOptInt(t)
    if kind == "opaque":
        return VOpaque(t)
    if kind == "ref":
        return VRef(t)
    if kind.startswith("seq:"):
        return VSeq(t, kind[4:])
    if ty.has_record(kind):
        dt, fields = ty.record(kind)
        return VRec(kind, {f: wrap_kind(k, getattr(dt, f)(t)) for f, k in fields})
    raise OutOfSubset("kind", kind)


def unwrap(v: V, kind: str | None = None):
    """z3 term of a value (for storing into sequences / comparing)."""
    if kind == "optint" and not isinstance(v, VOptInt):
        O = ty.optint_sort()
        if isinstance(v, VNone):
            return O.none
        if isinstance(v, VInt):
            return O.some(v.t)
    if isinstance(v, (VInt, VBool, VStr, VSeq, VRef, VOpaque, VMatch, VOptInt)):
        return v.t
    if isinstance(v, VRec):
        dt, fields = ty.record(v.cls)
        return dt.constructor(0)(*[unwrap(v.fields[f], k) for f, k in fields])
    if isinstance(v, VNone):
        return I(0)
    if isinstance(v, VPy) and isinstance(v.obj, (bool, int, str)):
        return const_of(v.obj)
    raise OutOfSubset("unwrap", type(v).__name__)


class Ctx:
    """Verification of one contract."""

    def __init__(self, contract: Contract, registry: dict, *, branch_timeout_ms=250, heap_schema=None):
        self.contract = contract
        self.registry = registry
        self.branch_timeout_ms = branch_timeout_ms
        self.obligations: list[Obligation] = []
        self._seen: set = set()
        self.paths = 0
        self.covered_exits: dict[str, int] = {}
        self.assumptions_used: set[str] = set()
        self.inlined: set[str] = set()
        self.heap_schema = heap_schema
        self.by_target = {}
        for c in registry.values():
            self.by_target.setdefault(c.target, c)
        self.max_paths = 4000
        self.cover_models: list = []

    # ------------------------------------------------------------------ obligations
    def oblige(self, path: Path, kind: str, label: str, goal, node=None, *, must_fail=False, aux=False,
               extra_assumptions=()):
        if isinstance(goal, bool):
            goal = z3.BoolVal(goal)
        g = z3.simplify(goal)
        if z3.is_true(g) and not must_fail:
            key = (kind, label, "T")
            if key not in self._seen:
                self._seen.add(key)
                self.obligations.append(
                    Obligation(self.contract.name, kind, label, getattr(node, "lineno", 0), [], z3.BoolVal(True),
                               path.pid, must_fail, tuple(self.contract.props), {}, aux))
            return
        assumptions = list(path.pc) + list(path.axioms) + list(extra_assumptions) + path.finalize_axioms()
        key = (kind, label, tuple(a.get_id() for a in assumptions), g.get_id())
        if key in self._seen:
            return
        self._seen.add(key)
        self.obligations.append(
            Obligation(self.contract.name, kind, label, getattr(node, "lineno", 0), assumptions, g, path.pid,
                       must_fail, tuple(self.contract.props), dict(path.inputs), aux))

    def lemma_pred(self, path, lem, fspec, term):
        ev = Evaluator(self, path, pure=True)
        env = Env(module=None)
        env.py_globals = fspec.globals
        for i, pname in enumerate(fspec.params[:-1]):
            env.vars[pname] = wrap_kind(fspec.sorts[i], fold_fn(fspec, i)(term))
        return ev.truth(ev.ev(ast.parse(lem.pred, mode="eval").body, env))

    # ------------------------------------------------------------------ fold specs
    def fold_step(self, path: Path, fspec: Spec, st: list, c):
        """Apply the step function symbolically (pure merge evaluation)."""
        ev = Evaluator(self, path, pure=True)
        args = [wrap_kind(k, t) for k, t in zip(fspec.sorts, st)] + [VStr(c, is_char=True)]
        res = ev.call_spec_pure(fspec, args)
        if isinstance(res, VTuple):
            return [unwrap(x) for x in res.items]
        return [unwrap(res)]

    def fold_apply(self, path: Path, view: Spec, arg: VStr) -> V:
        fspec = view.fold
        t = arg.t
        self.register_fold_term(path, fspec, t)
        k = fspec.sorts[view.comp]
        return wrap_kind(k, fold_fn(fspec, view.comp)(t))

    def register_fold_term(self, path: Path, fspec: Spec, t, depth=0):
        key = (fspec.name, t.get_id())
        if key in path.unfolded:
            return
        path.unfolded.add(key)
        n = len(fspec.sorts)
        if is_str_lit(t):
            vals = fspec.run(t.as_string())  # type: ignore[attr-defined]
            for i in range(n):
                path.add_axiom(fold_fn(fspec, i)(t) == native_const(vals[i], fspec.sorts[i]))
            return
        args = flatten_concat(t)
        last = args[-1]
        if len(args) >= 2 or (len(args) == 1 and False):
            prefix = args[0] if len(args) == 2 else z3.Concat(*args[:-1])
            if is_str_lit(last):
                text = last.as_string()
                if len(text) >= 1:
                    self.register_fold_term(path, fspec, prefix, depth + 1)
                    st = [fold_fn(fspec, i)(prefix) for i in range(n)]
                    for ch in text:
                        st = self.fold_step(path, fspec, st, S(ch))
                    path.add_axiom(z3.And(*[fold_fn(fspec, i)(t) == st[i] for i in range(n)]))
                    return
            else:
                # symbolic last piece: unfold one step under the guard Length(last) == 1
                self.register_fold_term(path, fspec, prefix, depth + 1)
                st = [fold_fn(fspec, i)(prefix) for i in range(n)]
                st2 = self.fold_step(path, fspec, st, last)
                path.add_axiom(z3.Implies(z3.Length(last) == 1,
                                          z3.And(*[fold_fn(fspec, i)(t) == st2[i] for i in range(n)])))
                # and the empty piece
                path.add_axiom(z3.Implies(z3.Length(last) == 0,
                                          z3.And(*[fold_fn(fspec, i)(t) == st[i] for i in range(n)])))
                return
        sl = as_prefix_slice(t)
        if sl is not None:
            x, e = sl
            path.fold_slices.append((fspec, x, e))
            path.prefix_slices.setdefault(x.get_id(), []).append((x, e))
            return
        if z3.is_const(t) or True:
            # plain term: relate to its own full prefix slice so loop-exit facts connect
            e = z3.Length(t)
            path.fold_slices.append((fspec, t, e))
            path.prefix_slices.setdefault(t.get_id(), []).append((t, e))


def flatten_concat(t):
    if z3.is_app(t) and t.decl().kind() == z3.Z3_OP_SEQ_CONCAT:
        out = []
        for a in t.children():
            out.extend(flatten_concat(a))
        return out
    return [t]


def as_prefix_slice(t):
    """SubString(x, 0, e) -> (x, e)"""
    if z3.is_app(t) and t.decl().kind() == z3.Z3_OP_SEQ_EXTRACT:
        x, a, n = t.children()
        if z3.is_int_value(a) and a.as_long() == 0:
            return x, n
    return None


# -------------------------------------------------------------------------------------------
# regex translation (only the constructs the repo's patterns use)


class RegexSpec:
    def __init__(self, pattern: str):
        self.pattern = pattern
        self.anch_start = False
        self.anch_end = False
        body = pattern
        if body.startswith("^"):
            self.anch_start = True
            body = body[1:]
        if body.endswith("$") and not body.endswith("\\$"):
            self.anch_end = True
            body = body[:-1]
        if body.endswith("\\Z"):
            self.anch_end_strict = True
            body = body[:-2]
        else:
            self.anch_end_strict = False
        self.body = self._parse(body)

    def _parse(self, s):
        pos = 0
        seq = []

        def parse_class(i):
            assert s[i] == "["
            i += 1
            neg = False
            if s[i] == "^":
                neg = True
                i += 1
            items = []
            while s[i] != "]":
                c = s[i]
                if c == "\\":
                    i += 1
                    c = {"n": "\n", "t": "\t", "r": "\r"}.get(s[i], s[i])
                if i + 2 < len(s) and s[i + 1] == "-" and s[i + 2] != "]":
                    items.append(z3.Range(c, s[i + 2]))
                    i += 3
                else:
                    items.append(z3.Re(c))
                    i += 1
            r = items[0] if len(items) == 1 else z3.Union(*items)
            if neg:
                r = z3.Intersect(z3.AllChar(z3.ReSort(z3.StringSort())), z3.Complement(r))
            return r, i + 1

        while pos < len(s):
            c = s[pos]
            if c == "[":
                atom, pos = parse_class(pos)
            elif c == "\\":
                pos += 1
                atom = z3.Re({"n": "\n", "t": "\t", "r": "\r"}.get(s[pos], s[pos]))
                pos += 1
            elif c == ".":
                atom = z3.Intersect(z3.AllChar(z3.ReSort(z3.StringSort())), z3.Complement(z3.Re("\n")))
                pos += 1
            elif c in "()|{}":
                raise OutOfSubset("regex", self.pattern)
            else:
                atom = z3.Re(c)
                pos += 1
            if pos < len(s) and s[pos] in "*+?":
                q = s[pos]
                pos += 1
                atom = {"*": z3.Star, "+": z3.Plus, "?": z3.Option}[q](atom)
            seq.append(atom)
        if not seq:
            return z3.Re("")
        return seq[0] if len(seq) == 1 else z3.Concat(*seq)

    def _any(self):
        return z3.Full(z3.ReSort(z3.StringSort()))

    def matches(self, s, mode):
        """mode in match/search/fullmatch; Python semantics of `$`: end, or before a final \\n."""
        body = self.body
        if mode == "fullmatch":
            pre, anch_end = body, True
            full = True
        else:
            full = False
            pre = body
            if mode == "search" and not self.anch_start:
                pre = z3.Concat(self._any(), body)
        if full or self.anch_end_strict:
            return z3.InRe(s, pre)
        if self.anch_end:
            return z3.Or(
                z3.InRe(s, pre),
                z3.And(z3.SuffixOf(S("\n"), s), z3.InRe(z3.SubString(s, 0, z3.Length(s) - 1), pre)),
            )
        return z3.InRe(s, z3.Concat(pre, self._any()))


# -------------------------------------------------------------------------------------------


MUTATORS = {"append", "extend", "insert", "pop", "remove", "clear", "add", "sort", "discard", "update"}


def assigned_names(body, closures: dict) -> set:
    """Names (re)bound or mutated by a list of statements, following calls to inlined closures."""
    out = set()

    def target_names(t):
        if isinstance(t, ast.Name):
            out.add(t.id)
        elif isinstance(t, (ast.Tuple, ast.List)):
            for e in t.elts:
                target_names(e)
        elif isinstance(t, ast.Starred):
            target_names(t.value)
        elif isinstance(t, ast.Subscript):
            # x[i] = v / del x[i] on a local pure list rebinding x; heap objects are handled by the heap
            if isinstance(t.value, ast.Name):
                out.add("~" + t.value.id)

    class Vis(ast.NodeVisitor):
        def visit_Assign(self, n):
            for t in n.targets:
                target_names(t)
            self.generic_visit(n)

        def visit_AugAssign(self, n):
            target_names(n.target)
            self.generic_visit(n)

        def visit_AnnAssign(self, n):
            if n.value is not None:
                target_names(n.target)
            self.generic_visit(n)

        def visit_For(self, n):
            target_names(n.target)
            self.generic_visit(n)

        def visit_With(self, n):
            for it in n.items:
                if it.optional_vars is not None:
                    target_names(it.optional_vars)
            self.generic_visit(n)

        def visit_Delete(self, n):
            for t in n.targets:
                target_names(t)

        def visit_NamedExpr(self, n):
            target_names(n.target)
            self.generic_visit(n)

        def visit_Call(self, n):
            f = n.func
            if isinstance(f, ast.Attribute) and f.attr in MUTATORS and isinstance(f.value, ast.Name):
                out.add("~" + f.value.id)  # mutation (matters for pure local lists only)
            if isinstance(f, ast.Name) and f.id in closures:
                out.update(closures[f.id])
            self.generic_visit(n)

        def visit_FunctionDef(self, n):
            pass  # nested defs: effects counted at call sites

        def visit_ExceptHandler(self, n):
            if n.name:
                out.add(n.name)
            self.generic_visit(n)

    v = Vis()
    for s in body:
        v.visit(s)
    return out


def closure_effects(fn_node) -> dict:
    """For every nested def: the enclosing-scope names it rebinds (nonlocal) or mutates."""
    eff = {}
    for n in ast.walk(fn_node):
        if isinstance(n, ast.FunctionDef) and n is not fn_node:
            nl = set()
            for s in ast.walk(n):
                if isinstance(s, ast.Nonlocal):
                    nl.update(s.names)
            local_assigned = assigned_names(n.body, {})
            params = {a.arg for a in n.args.args + n.args.kwonlyargs}
            muts = set()
            for s in ast.walk(n):
                if isinstance(s, ast.Call) and isinstance(s.func, ast.Attribute) and s.func.attr in MUTATORS \
                        and isinstance(s.func.value, ast.Name) and s.func.value.id not in params:
                    muts.add("~" + s.func.value.id)
            eff[n.name] = ({x for x in local_assigned if not x.startswith("~")} & nl) | muts
    return eff


from .evaluator import Evaluator  # noqa: E402  (cyclic by design)
