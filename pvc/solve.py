"""Discharge of proof obligations: z3 first, /usr/bin/cvc5 on the SMT-LIB dump for `unknown`.

Statuses: discharged (unsat), refuted (sat, with model), undecided (unknown / timeout / error).
`unknown`, timeouts and tracebacks are never mapped to a violation.
"""
from __future__ import annotations

import os
import re
import subprocess
import tempfile
import time

import z3

CVC5 = "/usr/bin/cvc5"


def decode_z3_string(s: str) -> str:
    def rep(m):
        return chr(int(m.group(1), 16))

    s = re.sub(r"\\u\{([0-9a-fA-F]+)\}", rep, s)
    s = re.sub(r"\\x([0-9a-fA-F]{2})", rep, s)
    return s


def model_value(model, term):
    if term is None:
        return None
    v = model.eval(term, model_completion=True)
    if z3.is_int_value(v):
        return v.as_long()
    if z3.is_true(v):
        return True
    if z3.is_false(v):
        return False
    if z3.is_string_value(v):
        return decode_z3_string(v.as_string())
    if z3.is_seq(v):
        # sequence of strings/ints: flatten units
        out = []

        def walk(t):
            k = t.decl().kind()
            if k == z3.Z3_OP_SEQ_CONCAT:
                for c in t.children():
                    walk(c)
            elif k == z3.Z3_OP_SEQ_UNIT:
                out.append(model_value(model, t.arg(0)))
            elif k == z3.Z3_OP_SEQ_EMPTY:
                pass
            else:
                out.append(str(t))

        walk(v)
        return out
    return str(v)


def has_quantifier(exprs) -> bool:
    seen = set()

    def walk(t):
        if t.get_id() in seen:
            return False
        seen.add(t.get_id())
        if z3.is_quantifier(t):
            return True
        return any(walk(c) for c in t.children())

    return any(walk(e) for e in exprs)


def run_cvc5(smt2: str, timeout_s: float, strings=True):
    with tempfile.NamedTemporaryFile("w", suffix=".smt2", delete=False, dir=os.environ.get("PVC_TMP", None)) as fh:
        fh.write("(set-logic ALL)\n" + smt2)
        name = fh.name
    try:
        cmd = [CVC5, "--strings-exp", f"--tlimit={int(timeout_s * 1000)}", name]
        t0 = time.time()
        try:
            p = subprocess.run(cmd, capture_output=True, text=True, timeout=timeout_s + 5)
        except subprocess.TimeoutExpired:
            return "unknown", time.time() - t0, "timeout"
        out = p.stdout.strip().splitlines()
        first = out[0].strip() if out else ""
        if first in ("unsat", "sat", "unknown"):
            return first, time.time() - t0, ""
        return "unknown", time.time() - t0, (p.stdout + p.stderr)[:300]
    finally:
        try:
            os.unlink(name)
        except OSError:
            pass


def discharge(ob, *, timeout_ms=10000, use_cvc5=True, cvc5_timeout_s=20):
    """Return dict(status, backend, seconds, model)."""
    t0 = time.time()
    goal = ob.goal
    if z3.is_true(goal) and not ob.must_fail:
        return dict(status="discharged", backend="trivial", seconds=0.0, model=None)
    exprs = list(ob.assumptions) + [z3.Not(goal)]
    quant = has_quantifier(exprs)
    if quant and ob.must_fail:
        # vacuity guards (cover / canary) under quantified assumptions: satisfiability of the
        # quantifier-free part is checked (a contradiction among ground facts is what they look for)
        s0 = z3.Solver()
        s0.set("timeout", min(timeout_ms, 5000))
        for e in exprs:
            if not has_quantifier([e]):
                s0.add(e)
        r0 = s0.check()
        if r0 == z3.sat:
            return dict(status="refuted", backend="z3", seconds=time.time() - t0, model=None,
                        reason="quantifier-free part satisfiable")
        if r0 == z3.unsat:
            return dict(status="discharged", backend="z3", seconds=time.time() - t0, model=None)
        return dict(status="undecided", backend="z3", seconds=time.time() - t0, model=None, reason="cover: unknown")
    s = z3.Solver()
    if quant:
        s.set("auto_config", False)
        s.set("smt.mbqi", False)
    s.set("timeout", timeout_ms)
    for e in exprs:
        s.add(e)
    if os.environ.get("PVC_DUMP"):
        import hashlib

        nm = hashlib.sha1((getattr(ob, "kind", "") + getattr(ob, "label", "") + str(getattr(ob, "path_id", ""))).encode()).hexdigest()[:10]
        with open(os.path.join(os.environ["PVC_DUMP"], f"{nm}.smt2"), "w") as fh:
            fh.write(f"; {getattr(ob, 'kind', '')} :: {getattr(ob, 'label', '')}\n" + s.to_smt2())
    r = s.check()
    dt = time.time() - t0
    if r == z3.unsat:
        return dict(status="discharged", backend="z3", seconds=dt, model=None)
    if r == z3.sat:
        m = s.model()
        inputs = {}
        for k, term in ob.inputs.items():
            try:
                inputs[k] = model_value(m, term)
            except Exception as e:  # pragma: no cover
                inputs[k] = f"<{e}>"
        if quant:
            # with mbqi off a `sat` answer for quantified assumptions is only a candidate model
            return dict(status="undecided", backend="z3", seconds=dt, model=inputs, reason="sat-with-quantifiers(candidate)")
        return dict(status="refuted", backend="z3", seconds=dt, model=inputs)
    reason = s.reason_unknown()
    if quant:
        # retry with mbqi on (can prove some goals instantiation missed, and find real models)
        s2 = z3.Solver()
        s2.set("timeout", timeout_ms)
        # the assertions go through their SMT-LIB text: term order and ids are normalised, which makes the
        # instantiation-based proof search far more stable than on the incrementally built terms
        try:
            for e in z3.parse_smt2_string(s.to_smt2()):
                s2.add(e)
        except z3.Z3Exception:
            s2 = z3.Solver()
            s2.set("timeout", timeout_ms)
            for e in exprs:
                s2.add(e)
        r2 = s2.check()
        if r2 == z3.unsat:
            return dict(status="discharged", backend="z3-mbqi", seconds=time.time() - t0, model=None)
        if r2 == z3.sat:
            m = s2.model()
            inputs = {k: model_value(m, term) for k, term in ob.inputs.items()}
            return dict(status="refuted", backend="z3-mbqi", seconds=time.time() - t0, model=inputs)
    if use_cvc5 and os.path.exists(CVC5):
        try:
            smt2 = s.to_smt2()
            r3, dt3, err = run_cvc5(smt2, cvc5_timeout_s)
            if r3 == "unsat":
                return dict(status="discharged", backend="cvc5", seconds=time.time() - t0, model=None)
            if r3 == "sat":
                return dict(status="refuted", backend="cvc5", seconds=time.time() - t0, model=None, reason="cvc5 sat (no model extracted)")
            reason += f"; cvc5: {r3} {err}"
        except Exception as e:  # pragma: no cover
            reason += f"; cvc5 error {e}"
    return dict(status="undecided", backend="z3+cvc5", seconds=time.time() - t0, model=None, reason=reason)


# ---------------------------------------------------------------------------------------------
# bounded counter-model search for obligations with quantifiers
#
# z3 answers `unknown` when a quantified VC is satisfiable.  To obtain a candidate counterexample the
# VC is re-solved with every quantifier expanded over a small integer range and all list lengths
# bounded.  Expansion weakens the assumptions, so a model found this way is only a *candidate*: it
# is concretised into real objects and replayed natively; it never counts by itself.


def expand_quantifiers(e, lo, hi, memo=None):
    if memo is None:
        memo = {}
    k = e.get_id()
    if k in memo:
        return memo[k]
    if z3.is_quantifier(e):
        n = e.num_vars()
        if any(e.var_sort(i) != z3.IntSort() for i in range(n)) or n > 2:
            raise ValueError("unsupported quantifier")
        body = e.body()
        insts = []
        import itertools

        for vals in itertools.product(range(lo, hi + 1), repeat=n):
            # de Bruijn: var 0 is the last bound variable
            inst = z3.substitute_vars(body, *[z3.IntVal(v) for v in reversed(vals)])
            insts.append(expand_quantifiers(inst, lo, hi, memo))
        r = z3.And(*insts) if e.is_forall() else z3.Or(*insts)
    elif z3.is_app(e) and e.num_args() > 0:
        kids = [expand_quantifiers(c, lo, hi, memo) for c in e.children()]
        if all(a.get_id() == b.get_id() for a, b in zip(kids, e.children())):
            r = e
        else:
            r = e.decl()(*kids)
    else:
        r = e
    memo[k] = r
    return r


def _len_terms(exprs):
    out = {}
    seen = set()

    def walk(t):
        if t.get_id() in seen:
            return
        seen.add(t.get_id())
        if z3.is_app(t) and t.decl().kind() == z3.Z3_OP_SELECT and t.sort() == z3.IntSort():
            arr = t.arg(0)
            base = arr
            while z3.is_app(base) and base.decl().kind() == z3.Z3_OP_STORE:
                base = base.arg(0)
            if z3.is_const(base) and str(base).startswith("H.len"):
                out[t.get_id()] = t
        for c in t.children():
            walk(c)

    for e in exprs:
        walk(e)
    return list(out.values())


def bounded_countermodel(ob, K=3, timeout_ms=20000):
    """Candidate model of the negated obligation with quantifiers expanded over [-1, K+1] and list
    lengths <= K.  Returns (z3 model | None, reason)."""
    exprs = list(ob.assumptions) + [z3.Not(ob.goal)]
    try:
        memo = {}
        ex = [expand_quantifiers(e, -1, K + 1, memo) for e in exprs]
    except ValueError as e:
        return None, str(e)
    s = z3.Solver()
    s.set("timeout", timeout_ms)
    for e in ex:
        s.add(e)
    for t in _len_terms(ex):
        s.add(t >= 0, t <= K)
    r = s.check()
    if r == z3.sat:
        return s.model(), "sat (quantifiers expanded, lengths <= %d)" % K
    return None, str(r)
