"""Extraction of the verified text from /repo: the real source files are re-read and re-parsed on
every run; functions are located by qualified name.  Nothing is copied or rewritten by hand.

What extraction drops (reported in every evidence file): decorators, type annotations (used only
as sort hints), docstrings, comments.
"""
from __future__ import annotations

import ast
import hashlib
import os
import re
from dataclasses import dataclass, field

REPO = os.environ.get("NIMA_REPO", "/repo")


class OutOfSubset(Exception):
    def __init__(self, where, construct):
        super().__init__(f"{where}: {construct}")
        self.where = where
        self.construct = construct


class MissingFunction(Exception):
    pass


@dataclass
class Module:
    relpath: str
    path: str
    tree: ast.Module
    text: str
    defs: dict = field(default_factory=dict)  # qualname -> ast node (FunctionDef / ClassDef)
    consts: dict = field(default_factory=dict)  # module-level simple assignments name -> ast expr
    imports: dict = field(default_factory=dict)  # local name -> (module dotted, original name)

    @property
    def sha(self):
        return hashlib.sha256(self.text.encode()).hexdigest()[:16]


_CACHE: dict[str, Module] = {}


def _index(mod: Module):
    def visit(body, prefix):
        for node in body:
            if isinstance(node, (ast.FunctionDef, ast.AsyncFunctionDef)):
                q = prefix + node.name
                # keep the *last* plain definition; property setters get the suffix .setter
                is_setter = any(
                    isinstance(d, ast.Attribute) and d.attr == "setter" for d in node.decorator_list
                )
                if is_setter:
                    q += ".setter"
                mod.defs[q] = node
                visit(node.body, q + ".")
            elif isinstance(node, ast.ClassDef):
                q = prefix + node.name
                mod.defs[q] = node
                visit(node.body, q + ".")
            elif isinstance(node, (ast.If, ast.Try)):
                # top-level try/except ImportError blocks etc.
                for sub in ast.iter_child_nodes(node):
                    if isinstance(sub, list):
                        visit(sub, prefix)
                for attr in ("body", "orelse", "finalbody"):
                    visit(getattr(node, attr, []) or [], prefix)
                for h in getattr(node, "handlers", []) or []:
                    visit(h.body, prefix)

    visit(mod.tree.body, "")
    for node in mod.tree.body:
        if isinstance(node, ast.Assign) and len(node.targets) == 1 and isinstance(node.targets[0], ast.Name):
            mod.consts[node.targets[0].id] = node.value
        elif isinstance(node, ast.AnnAssign) and isinstance(node.target, ast.Name) and node.value is not None:
            mod.consts[node.target.id] = node.value
        elif isinstance(node, ast.ImportFrom):
            modname = node.module or ""
            if node.level:
                pkg = mod.relpath[:-3].replace("/", ".").split(".")
                if pkg[-1] == "__init__":
                    pkg = pkg[:-1]
                    base = pkg[: len(pkg) - (node.level - 1)]
                else:
                    base = pkg[: len(pkg) - node.level]
                modname = ".".join(base + ([node.module] if node.module else []))
            for a in node.names:
                mod.imports[a.asname or a.name] = (modname, a.name)
        elif isinstance(node, ast.Import):
            for a in node.names:
                mod.imports[(a.asname or a.name).split(".")[0]] = (a.name, None)
    # function-local imports are resolved by the engine when it meets them


def load_module(relpath: str) -> Module:
    root = os.environ.get("NIMA_REPO", REPO)
    key = os.path.join(root, relpath)
    if key in _CACHE:
        return _CACHE[key]
    if relpath.startswith("/"):
        path = relpath
    else:
        path = os.path.join(root, relpath)
    with open(path, encoding="utf-8") as fh:
        text = fh.read()
    tree = ast.parse(text, filename=path)
    mod = Module(relpath=relpath, path=path, tree=tree, text=text)
    _index(mod)
    _CACHE[key] = mod
    return mod


def dotted_to_relpath(dotted: str) -> str | None:
    """Map `nix_manipulator.expressions.trivia` to a path under /repo if it exists."""
    root = os.environ.get("NIMA_REPO", REPO)
    cand = dotted.replace(".", "/")
    for suffix in (".py", "/__init__.py"):
        if os.path.exists(os.path.join(root, cand + suffix)):
            return cand + suffix
    return None


def find_function(target: str):
    """target = 'nix_manipulator/cli/manipulations.py::_parse_npath' or '...::Class.method'."""
    relpath, qual = target.split("::")
    mod = load_module(relpath)
    node = mod.defs.get(qual)
    if node is None or not isinstance(node, (ast.FunctionDef, ast.AsyncFunctionDef)):
        raise MissingFunction(target)
    return mod, node


def function_source_hash(mod: Module, node) -> str:
    seg = ast.get_source_segment(mod.text, node) or ""
    return hashlib.sha256(seg.encode()).hexdigest()[:16]


def loops_in(node) -> list:
    """All for/while loops of a function in source order, *excluding* nested function bodies'
    loops being numbered separately: loops of nested defs are included in source order too
    (closures are inlined, so their loops belong to the function)."""
    out = []

    class Vis(ast.NodeVisitor):
        def visit_For(self, n):
            out.append(n)
            self.generic_visit(n)

        def visit_While(self, n):
            out.append(n)
            self.generic_visit(n)

    v = Vis()
    for stmt in node.body:
        v.visit(stmt)
    return out


def strip_docstring(body):
    if body and isinstance(body[0], ast.Expr) and isinstance(body[0].value, ast.Constant) and isinstance(body[0].value.value, str):
        return body[1:]
    return body
