"""Contract declaration API (sidecar contracts live in /verif/contracts/*.py).

A contract refers to the real code by `target` = '<path under /repo>::<qualified name>', to
parameters by name and to loops by ordinal in source order - never by line number.  Clauses are
Python expressions (strings); they are parsed with `ast` and translated by the *same* translator
as the code, and evaluated natively (specs are executable Python) for replay.
"""
from __future__ import annotations

from dataclasses import dataclass, field
from typing import Any

from .types import T


@dataclass
class Loop:
    invariant: list
    index: str = "_i"  # name of the ghost index of a for-loop
    decreases: str | None = None
    instances: list = field(default_factory=list)  # instantiation terms for requires_forall
    modifies: list = field(default_factory=list)  # heap locations written by the loop
    # ghost code (Python statements as text) run at the end of every iteration before the
    # invariant is re-established, e.g. lemma applications: "lemma_prefix(value, index)"
    ghost_end: list = field(default_factory=list)
    # ghost expressions evaluated at the start of every iteration (mentioning a term, e.g. "ap_mode(text[:index + 1])",
    # makes its unfolding available on every path of the body, including those that leave by raise)
    ghost_begin: list = field(default_factory=list)
    assume: list = field(default_factory=list)  # NOT allowed in proofs; listed as assumption if used


@dataclass
class Contract:
    target: str
    params: dict
    returns: Any = None
    requires: list = field(default_factory=list)
    # quantified preconditions: (bound variable, clause); usable only through `instances`
    requires_forall: list = field(default_factory=list)
    ensures: list = field(default_factory=list)
    exsures: dict = field(default_factory=dict)  # exception name -> clauses that hold when raised
    loops: dict = field(default_factory=dict)
    locals: dict = field(default_factory=dict)  # shape hints for local variables
    inline: list = field(default_factory=list)  # qualified names that may be inlined
    modifies: list = field(default_factory=list)
    props: list = field(default_factory=list)  # property ids this contract serves
    canaries: list = field(default_factory=list)  # wrong postconditions that MUST be refuted
    name: str = ""  # id; default = qualified name
    note: str = ""
    kind: str = "function"  # function | lemma
    replay: Any = None  # python callable(model_inputs) -> dict (native replay adapter)
    instances: list = field(default_factory=list)  # function-level instances of requires_forall
    pure_view: bool = False  # callee usable inside spec clauses (deterministic, no effects)
    trusted: bool = False  # contract assumed, not verified (listed in assumptions)
    # postcondition clauses that callers may use but that the body is NOT checked against (heap-wide representation
    # invariants the verifier has no device for); every use is listed under assumptions
    assumed_ensures: list = field(default_factory=list)
    global_maps: dict = field(default_factory=dict)  # module-level dict[int, tuple-of-refs] registries: name -> element class ("tuple")
    global_map_keys: dict = field(default_factory=dict)  # name -> [key expressions over the parameters]: the only keys the function may change
    entry_closure: bool = False  # assume the entry heap is closed: every reference stored in an object allocated at entry was allocated at entry
    self_cls: str | None = None
    # ghost lemma applications at function end: statements evaluated before checking ensures
    ghost_end: list = field(default_factory=list)
    timeout_ms: int = 10000
    # bounded native domain: dict(alphabet=[...], max_len=3, max_len_thorough=4, ints=[...]) or a
    # callable(tier) yielding input dicts
    domain: Any = None
    # assumed contracts on calls the verifier does not look into, keyed by the call's function text
    # (e.g. "parse", "args.file.read", "source.rebuild"); every use is listed under assumptions
    externals: dict = field(default_factory=dict)
    # call-site assertions: callee name -> clauses over the callee's parameter names and the caller's
    # variables, checked as obligations where this function calls that callee ("the addressed layer is ...")
    call_asserts: dict = field(default_factory=dict)
    allocates: bool = True
    # methods of opaque (uninterpreted) objects: name -> result type; a call is a deterministic
    # uninterpreted function of the receiver (and string/int arguments)
    opaque_methods: dict = field(default_factory=dict)

    def __post_init__(self):
        if not self.name:
            self.name = self.target.split("::")[1]

    @property
    def qualname(self):
        return self.target.split("::")[1]

    @property
    def relpath(self):
        return self.target.split("::")[0]


@dataclass
class External:
    returns: Any = None
    params: list = field(default_factory=list)  # positional parameter names (keywords map by name)
    ensures: list = field(default_factory=list)
    exsures: dict = field(default_factory=dict)
    note: str = ""
    modifies: list = field(default_factory=list)
    allocates: bool = False
    fresh: bool = False  # the result is a freshly allocated object (content unconstrained)
    preserves: list = field(default_factory=list)  # caller-side locations a `*` frame does not reach (fresh locals)
    name: str = "external"


REGISTRY: dict[str, Contract] = {}


def contract(**kw) -> Contract:
    c = Contract(**kw)
    key = c.name
    if key in REGISTRY:
        raise ValueError(f"duplicate contract {key}")
    REGISTRY[key] = c
    return c
