"""Symbolic values of the pvc engine.

Every Python value that the symbolic executor manipulates is one of the classes below.  Shapes are
static per path (path splitting): a variable is an int *or* None on a given path, never a union.
"""
from __future__ import annotations

from dataclasses import dataclass, field
from typing import Any

import z3


class V:
    """Base class of symbolic values."""


@dataclass
class VInt(V):
    t: Any  # z3 ArithRef


@dataclass
class VBool(V):
    t: Any  # z3 BoolRef


@dataclass
class VStr(V):
    t: Any  # z3 SeqRef (String)
    is_char: bool = False  # statically known to have length 1
    is_bytes: bool = False  # Python `bytes`: indexing yields an int


@dataclass
class VNone(V):
    pass


@dataclass
class VTuple(V):
    items: list


@dataclass
class VPy(V):
    """A concrete Python-level object the engine knows how to use (exception class, builtin,
    compiled regex, module, spec function, class object, sentinel)."""

    obj: Any
    name: str = ""


@dataclass
class VSeq(V):
    """Pure (non-aliased) list value carried as a z3 sequence."""

    t: Any  # z3 SeqRef
    kind: str  # element kind name registered in sorts.KINDS


@dataclass
class VArr(V):
    """Immutable sequence carried as a view (array, offset, length): indexing and slicing stay in the theory
    of arrays + linear arithmetic (no seq.nth, which the solvers handle poorly under quantifiers)."""

    arr: Any  # z3 Array Int -> elem sort
    off: Any  # z3 Int
    n: Any  # z3 Int (>= 0)
    kind: str


@dataclass
class VStrJoin(V):
    """list[str] that is only appended to / joined / tested for emptiness: (joined text, length)."""

    joined: Any
    n: Any


@dataclass
class VRec(V):
    """Immutable record value (frozen dataclass instance, e.g. _NPathSegment)."""

    cls: str
    fields: dict


@dataclass
class VMatch(V):
    """Result of re.match/search/fullmatch: only its truthiness is modelled."""

    t: Any  # z3 BoolRef: matched


@dataclass
class VRef(V):
    """Reference into the symbolic heap (0 is None)."""

    t: Any  # z3 Int
    cls: str | None = None  # static class hint (used for method dispatch)
    elem: str | None = None  # for lists: declared class of the elements (ListRef("tuple")); a typing hint, proved where it is a result


@dataclass
class VClosure(V):
    node: Any  # ast.FunctionDef
    env: Any  # defining Env
    module: Any


@dataclass
class VBound(V):
    """Bound method: receiver + method name."""

    recv: V
    name: str


@dataclass
class VObj(V):
    """Immutable struct with named fields (argparse namespace, self of a read-only method, ...)."""

    fields: dict
    label: str = ""


@dataclass
class VOptInt(V):
    """int | None as one symbolic value (z3 datatype OptInt)."""

    t: Any


@dataclass
class VOpaque(V):
    """A value the engine carries around but cannot inspect (uninterpreted)."""

    t: Any
    sort_name: str = ""


def is_concrete_bool(v: V):
    if isinstance(v, VBool):
        s = z3.simplify(v.t)
        if z3.is_true(s):
            return True
        if z3.is_false(s):
            return False
    return None
