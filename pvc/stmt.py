"""Statement execution, loops cut at invariants, modular / inlined calls, function-level driver."""
from __future__ import annotations

import ast
import time

import z3

from . import types as ty
from .contract import Contract, Loop
from .source import (MissingFunction, OutOfSubset, find_function, load_module, loops_in,
                     strip_docstring)
from .spec import SPECS
from .values import (V, VBool, VBound, VClosure, VInt, VMatch, VNone, VObj, VOpaque, VPy, VRec, VRef,
                     VSeq, VStr, VStrJoin, VTuple)


def S(s):
    return z3.StringVal(s)


def I(n):
    return z3.IntVal(n)


class StmtMixin:
    # ------------------------------------------------------------------ blocks
    def exec_block(self, stmts, env):
        for st in stmts:
            self.exec_stmt(st, env)

    def exec_stmt(self, st, env):
        m = getattr(self, "st_" + type(st).__name__, None)
        if m is None:
            self.oos(st, f"statement {type(st).__name__}")
        self.path.trace_lines.append(getattr(st, "lineno", 0))
        return m(st, env)

    def st_Pass(self, st, env):
        pass

    def st_Expr(self, st, env):
        v = st.value
        if isinstance(v, ast.Constant):
            return
        if isinstance(v, ast.Yield):
            hook = getattr(self, "_yield_hook", None)
            if hook is None:
                self.oos(st, "yield outside an inlined context manager")
            hook()
            return
        if isinstance(v, ast.Call) and isinstance(v.func, ast.Attribute) and isinstance(v.func.value, ast.Name):
            # mutating method on a local pure list
            name = v.func.value.id
            cur = env.lookup(name)
            if cur is not None and (isinstance(cur, (VSeq, VStrJoin)) or (isinstance(cur, VPy) and cur.obj == ("emptylist",))):
                if v.func.attr in ("append", "extend", "insert", "pop", "remove", "clear"):
                    self.local_list_mutation(name, cur, v, env, st)
                    return
        self.ev(v, env)

    def local_list_mutation(self, name, cur, call, env, st):
        meth = call.func.attr
        args = [self.lift(self.ev(a, env)) for a in call.args]
        if isinstance(cur, VPy):  # untyped empty list: fix its shape on first use
            hint = self.ctx.contract.locals.get(name)
            if hint is not None:
                cur = self.empty_of_type(hint)
            elif meth == "append":
                a = args[0]
                if isinstance(a, VStr):
                    cur = VSeq(z3.Empty(z3.SeqSort(z3.StringSort())), "str")
                elif isinstance(a, VInt):
                    cur = VSeq(z3.Empty(z3.SeqSort(z3.IntSort())), "int")
                elif isinstance(a, VRec):
                    cur = VSeq(z3.Empty(z3.SeqSort(ty.kind_sort(a.cls))), a.cls)
                elif isinstance(a, (VRef, VNone)):
                    cur = self.heap.new_list([])
                    env.owner(name).vars[name] = cur
                    self.heap.append(cur, a, st)
                    return
                else:
                    self.oos(st, f"append of {type(a).__name__} to untyped list")
            else:
                self.oos(st, f"{meth} on untyped empty list")
        if isinstance(cur, VStrJoin):
            if meth == "append":
                a = args[0]
                if not isinstance(a, VStr):
                    self.oos(st, "append non-str to joined list")
                new = VStrJoin(z3.Concat(cur.joined, a.t), cur.n + 1)
            elif meth == "clear":
                new = VStrJoin(S(""), I(0))
            else:
                self.oos(st, f"{meth} on joined list")
        else:
            if meth == "append":
                new = VSeq(z3.Concat(cur.t, z3.Unit(self.E.unwrap(args[0]))), cur.kind)
            elif meth == "extend":
                a = args[0]
                if isinstance(a, VSeq) and a.kind == cur.kind:
                    new = VSeq(z3.Concat(cur.t, a.t), cur.kind)
                elif isinstance(a, VPy) and a.obj == ("emptylist",):
                    new = cur
                else:
                    self.oos(st, "extend with foreign list")
            elif meth == "clear":
                new = VSeq(z3.Empty(cur.t.sort()), cur.kind)
            elif meth == "pop" and args and self.const_int(args[0], st) == 0:
                ok = z3.Length(cur.t) > 0
                self.ctx.oblige(self.path, "index-bounds", f"L{st.lineno}:pop(0)", ok, st)
                self.path.assume(ok, check=False)
                new = VSeq(z3.SubString(cur.t, 1, z3.Length(cur.t) - 1), cur.kind)
            else:
                self.oos(st, f"{meth} on pure list")
        env_owner = env.owner(name)
        env_owner.vars[name] = new

    def empty_of_type(self, t):
        if t.name == "StrJoin":
            return VStrJoin(S(""), I(0))
        if t.name == "Seq":
            return VSeq(z3.Empty(z3.SeqSort(ty.kind_sort(t.args[0]))), t.args[0])
        if t.name == "ListRef":
            r = self.heap.new_list([])
            r.elem = t.args[0]
            return r
        raise OutOfSubset("locals", repr(t))

    def st_Assign(self, st, env):
        v = self.ev(st.value, env)
        for tgt in st.targets:
            if isinstance(tgt, ast.Name) and isinstance(v, VPy) and v.obj == ("emptylist",):
                hint = self.ctx.contract.locals.get(tgt.id)
                if hint is not None:
                    v = self.empty_of_type(hint)
                else:
                    cur = env.lookup(tgt.id)
                    if isinstance(cur, (VSeq, VStrJoin)):
                        v = self.empty_like(cur)
            self.bind_target(tgt, v, env, st)

    def st_AnnAssign(self, st, env):
        if st.value is None:
            return
        v = self.ev(st.value, env)
        if isinstance(st.target, ast.Name) and isinstance(v, VPy) and v.obj == ("emptylist",):
            hint = self.ctx.contract.locals.get(st.target.id)
            if hint is None:
                ann = ast.unparse(st.annotation)
                if ann in ("list[str]", "List[str]"):
                    hint = ty.SeqOf("str")
                elif ann in ("list[int]",):
                    hint = ty.SeqOf("int")
                elif ann.startswith("list[") and self.path.heap:
                    hint = ty.ListRef()  # list of objects: a heap list (identity matters)
            if hint is not None:
                v = self.empty_of_type(hint)
        if isinstance(st.target, ast.Name) and isinstance(v, VRef) and v.elem is None:
            hint = self.ctx.contract.locals.get(st.target.id)
            if hint is not None and hint.name == "ListRef":
                v.elem = hint.args[0]
            elif ast.unparse(st.annotation).startswith("list[tuple["):
                v.elem = "tuple"
        self.bind_target(st.target, v, env, st)

    def st_AugAssign(self, st, env):
        if isinstance(st.target, ast.Name):
            cur = self.lift(self.resolve_name(st.target.id, env, st))
            rhs = self.lift(self.ev(st.value, env))
            env.assign(st.target.id, self.binop(st.op, cur, rhs, st))
            return
        if isinstance(st.target, ast.Attribute):
            base = self.ev(st.target.value, env)
            cur = self.lift(self.getattr_value(base, st.target.attr, st))
            rhs = self.lift(self.ev(st.value, env))
            self.bind_target(st.target, self.binop(st.op, cur, rhs, st), env, st)
            return
        self.oos(st, "augmented assignment target")

    def st_Return(self, st, env):
        v = self.ev(st.value, env) if st.value is not None else VNone()
        raise self.E.Ret(v)

    def st_Break(self, st, env):
        raise self.E.Brk()

    def st_Continue(self, st, env):
        raise self.E.Cont()

    def st_Nonlocal(self, st, env):
        env.nonlocals.update(st.names)

    def st_Global(self, st, env):
        self.oos(st, "global statement")

    def st_Import(self, st, env):
        for a in st.names:
            env.vars[(a.asname or a.name).split(".")[0]] = VPy(("extmod", a.name))

    def st_ImportFrom(self, st, env):
        from .source import dotted_to_relpath

        for a in st.names:
            local = a.asname or a.name
            rel = dotted_to_relpath(st.module or "")
            if rel is None:
                from .evaluator import EXC_NAMES

                if a.name in EXC_NAMES:
                    env.vars[local] = VPy(("exc", a.name), a.name)
                else:
                    env.vars[local] = VPy(("ext", st.module or "", a.name), local)
                continue
            m2 = load_module(rel)
            r = self.resolve_module_name(m2, a.name)
            if r is None:
                rel2 = dotted_to_relpath((st.module or "") + "." + a.name)
                r = VPy(("repomod", rel2), local) if rel2 else VPy(("ext", st.module, a.name), local)
            env.vars[local] = r

    def st_FunctionDef(self, st, env):
        env.vars[st.name] = VClosure(st, env, env.module)

    def st_Assert(self, st, env):
        c = self.truth(self.ev(st.test, env))
        if not self.path.branch(c):
            raise self.E.Raised("AssertionError", st)
        # `assert isinstance(x, C)` also refines the static class used for method dispatch
        t = st.test
        if isinstance(t, ast.Call) and isinstance(t.func, ast.Name) and t.func.id == "isinstance" and isinstance(t.args[0], ast.Name) \
                and isinstance(t.args[1], ast.Name):
            v = env.lookup(t.args[0].id)
            if isinstance(v, VRef):
                env.assign(t.args[0].id, VRef(v.t, t.args[1].id))

    def st_Raise(self, st, env):
        if st.exc is None:
            cur = getattr(self, "_handling", None)
            if cur is None:
                self.oos(st, "bare raise outside handler")
            raise self.E.Raised(cur, st)
        exc = st.exc
        name = None
        if isinstance(exc, ast.Call):
            f = exc.func
            name = f.id if isinstance(f, ast.Name) else (f.attr if isinstance(f, ast.Attribute) else None)
            # evaluate arguments for their obligations (messages are ignored)
            for a in exc.args:
                try:
                    self.ev(a, env)
                except OutOfSubset:
                    pass
        elif isinstance(exc, ast.Name):
            name = exc.id
            v = env.lookup(name)
            if isinstance(v, VPy) and isinstance(v.obj, tuple) and v.obj[0] == "excinst":
                name = v.obj[1]
        if name is None:
            self.oos(st, "raise of computed exception")
        raise self.E.Raised(name, st)

    def st_If(self, st, env):
        c = self.truth(self.ev(st.test, env))
        if self.path.branch(c):
            self.exec_block(st.body, env)
        else:
            self.exec_block(st.orelse, env)

    def st_Try(self, st, env):
        if st.finalbody:
            try:
                self._try_core(st, env)
            except (self.E.Ret, self.E.Raised, self.E.Brk, self.E.Cont):
                self.exec_block(st.finalbody, env)
                raise
            self.exec_block(st.finalbody, env)
            return
        self._try_core(st, env)

    def _try_core(self, st, env):
        try:
            self.exec_block(st.body, env)
        except self.E.Raised as r:
            for h in st.handlers:
                names = []
                if h.type is None:
                    names = ["BaseException"]
                elif isinstance(h.type, ast.Tuple):
                    names = [ast.unparse(e).split(".")[-1] for e in h.type.elts]
                else:
                    names = [ast.unparse(h.type).split(".")[-1]]
                if any(self.E.exc_is(r.exc, n) or n == "BaseException" for n in names):
                    if h.name:
                        env.assign(h.name, VPy(("excinst", r.exc)))
                    prev = getattr(self, "_handling", None)
                    self._handling = r.exc
                    try:
                        self.exec_block(h.body, env)
                    finally:
                        self._handling = prev
                    return
            raise
        else:
            self.exec_block(st.orelse, env)

    def st_With(self, st, env):
        self.heap.exec_with(st, env)

    def st_Delete(self, st, env):
        for tgt in st.targets:
            if isinstance(tgt, ast.Subscript):
                base = self.ev(tgt.value, env)
                if isinstance(base, VRef):
                    idx = self.ev(tgt.slice, env)
                    # call_asserts keyed "del <target text>" (clauses over the caller's variables)
                    clauses = self.ctx.contract.call_asserts.get("del " + ast.unparse(tgt.value), [])
                    if clauses and not self.pure:
                        sub = self.pure_eval()
                        for cl in clauses:
                            t = sub.truth(sub.ev(ast.parse(cl, mode="eval").body, env))
                            self.ctx.oblige(self.path, "assert@callsite", f"del {ast.unparse(tgt)}: {cl} @L{st.lineno}", t, st)
                    self.heap.delitem(base, idx, st, env)
                    continue
            self.oos(st, "del target")

    def st_Match(self, st, env):
        subject = self.ev(st.subject, env)
        for case in st.cases:
            pat = case.pattern
            if case.guard is not None:
                self.oos(st, "match guard")
            if isinstance(pat, ast.MatchValue):
                v = self.ev(pat.value, env)
                c = self.eq(subject, v)
            elif isinstance(pat, ast.MatchAs) and pat.pattern is None:
                c = z3.BoolVal(True)
                if pat.name:
                    env.assign(pat.name, subject)
            elif isinstance(pat, ast.MatchClass) and not pat.patterns and not pat.kwd_patterns:
                cname = ast.unparse(pat.cls)
                if isinstance(subject, VRef):
                    c = self.heap.isinstance(subject, [cname])
                else:
                    c = z3.BoolVal(False)
            else:
                self.oos(st, f"match pattern {type(pat).__name__}")
            if self.path.branch(c):
                self.exec_block(case.body, env)
                return

    # ------------------------------------------------------------------ loops
    def loop_contract(self, st) -> Loop | None:
        idx = self.loop_index.get(id(st))
        if idx is None:
            return None
        return self.ctx.contract.loops.get(idx)

    def check_clauses(self, clauses, env, kind, node, *, assume=False, labels=None):
        sub = self.pure_eval()
        for k, cl in enumerate(clauses):
            expr = ast.parse(cl, mode="eval").body
            t = sub.truth(sub.ev(expr, env))
            if assume:
                self.path.assume(t, check=False)
            else:
                self.ctx.oblige(self.path, kind, cl, t, node)

    def havoc(self, names, env, tag):
        rebound = {n for n in names if not n.startswith("~")}
        mutated = {n[1:] for n in names if n.startswith("~")}
        for n in sorted(rebound | mutated):
            o = env.owner(n)
            if o is not None and n not in rebound and isinstance(o.vars[n], VRef):
                continue  # in-place mutation of a heap object: the heap is havocked, not the variable
            if o is None:
                continue
            cur = o.vars[n]
            if isinstance(cur, VPy) and cur.obj == ("emptylist",):
                hint = self.ctx.contract.locals.get(n)
                if hint is None:
                    self.oos(None, f"loop modifies untyped empty list {n}: add a locals hint")
                cur = self.empty_of_type(hint)
            o.vars[n] = self.fresh_like(cur, f"{n}@{tag}")

    def instantiate_foralls(self, terms, env):
        c = self.ctx.contract
        if not c.requires_forall or not terms:
            return
        sub = self.pure_eval()
        for var, clause in c.requires_forall:
            expr = ast.parse(clause, mode="eval").body
            for tm in terms:
                e2 = self.E.Env(parent=self.entry_env)
                # instantiation terms may mention current locals
                e3 = self.E.Env(parent=env)
                val = sub.ev(ast.parse(tm, mode="eval").body, e3)
                e2.vars[var] = val
                self.path.assume(sub.truth(sub.ev(expr, e2)), check=False)

    def run_ghost(self, stmts, env):
        sub = self.pure_eval()
        for text in stmts:
            for st in ast.parse(text).body:
                if isinstance(st, ast.Expr):
                    sub.ev(st.value, env)
                else:
                    self.oos(st, "ghost statement")

    def st_While(self, st, env):
        if st.orelse:
            self.oos(st, "while-else")
        lc = self.loop_contract(st)
        if lc is None:
            self.oos(st, "loop without invariant in the contract")
        tag = f"L{self.loop_index[id(st)]}"
        # establish
        self.check_clauses(lc.invariant, env, f"inv-init:{tag}", st)
        mod = self.E.assigned_names(st.body, self.closure_fx)
        lframe = self.heap.loop_frame(lc, env, tag) if self.path.heap else None
        self.heap.havoc_for_loop(lc, env, tag)
        if lframe is not None:
            lframe["alloc"] = self.path.heap["$alloc"]
        self.havoc(mod, env, tag)
        self.check_clauses(lc.invariant, env, "assume", st, assume=True)
        self.instantiate_foralls(lc.instances, env)
        self.path.assume(z3.BoolVal(True))
        d0 = None
        if lc.decreases:
            sub = self.pure_eval()
            d0 = sub.ev(ast.parse(lc.decreases, mode="eval").body, env).t
        c = self.truth(self.ev(st.test, env))
        if self.path.branch(c):
            self.run_ghost(getattr(lc, "ghost_begin", []), env)
            frames = getattr(self, "loop_frames", None)
            if frames is None:
                frames = self.loop_frames = []
            if lframe is not None:
                frames.append(lframe)
            try:
                self.exec_block(st.body, env)
            except self.E.Cont:
                pass
            except self.E.Brk:
                return
            finally:
                if lframe is not None:
                    frames.pop()
            if lframe is not None:
                self.ctx.obligations.extend(lframe.pop("pending", []))
            self.run_ghost(lc.ghost_end, env)
            self.check_clauses(lc.invariant, env, f"inv-preserve:{tag}", st)
            if d0 is not None:
                sub = self.pure_eval()
                d1 = sub.ev(ast.parse(lc.decreases, mode="eval").body, env).t
                self.ctx.oblige(self.path, f"variant:{tag}", lc.decreases, z3.And(d0 >= 0, d1 < d0), st)
            raise self.E.PathEnd()
        # exit: continue after the loop with invariant and negated guard

    def st_For(self, st, env):
        if st.orelse:
            self.oos(st, "for-else")
        it = self.lift(self.ev(st.iter, env))
        # statically sized tuples are unrolled
        if isinstance(it, VTuple):
            for item in it.items:
                self.bind_target(st.target, item, env, st)
                try:
                    self.exec_block(st.body, env)
                except self.E.Cont:
                    continue
                except self.E.Brk:
                    break
            return
        if isinstance(it, VPy) and it.obj == ("emptylist",):
            return
        lc = self.loop_contract(st)
        if lc is None:
            self.oos(st, "loop without invariant in the contract")
        tag = f"L{self.loop_index[id(st)]}"
        n, elem = self.iter_source(it, st)
        ghost = lc.index
        # establish with index 0
        e0 = self.E.Env(parent=env)
        e0.vars[ghost] = VInt(I(0))
        self.check_clauses(lc.invariant, e0, f"inv-init:{tag}", st)
        mod = self.E.assigned_names(st.body, self.closure_fx) | self.E.assigned_names([ast.Assign(targets=[st.target], value=ast.Constant(0))], {})
        target_names = self.E.assigned_names([ast.Assign(targets=[st.target], value=ast.Constant(0))], {})
        target_names |= {"~" + x for x in target_names}
        lframe = self.heap.loop_frame(lc, env, tag) if self.path.heap else None
        self.heap.havoc_for_loop(lc, env, tag)
        if lframe is not None:
            lframe["alloc"] = self.path.heap["$alloc"]
        self.havoc(mod - target_names, env, tag)
        # the length of a heap list may change inside the loop only if the loop leaves right after
        n, elem = self.iter_source(it, st)  # re-read: also for enumerate()/reversed() wrappers around a heap list
        i = self.path.fresh(f"{ghost}@{tag}", z3.IntSort())
        self.path.assume(z3.And(i >= 0, i <= n), check=False)
        env.vars[ghost] = VInt(i)
        self.check_clauses(lc.invariant, env, "assume", st, assume=True)
        self.instantiate_foralls(lc.instances, env)
        self.path.assume(z3.BoolVal(True))
        c = self.path.choose(2)
        if c == 0:
            self.path.assume(i < n)
            if isinstance(it, VStr):
                # make the prefix that includes the current character available to fold lemmas
                seen = set()
                for fspec, x2, _e in list(self.path.fold_slices):
                    if x2.get_id() == it.t.get_id() and fspec.name not in seen:
                        seen.add(fspec.name)
                        self.path.fold_slices.append((fspec, it.t, i + 1))
                self.path.prefix_slices.setdefault(it.t.get_id(), []).append((it.t, i + 1))
            self.bind_target(st.target, elem(i), env, st)
            frames = getattr(self, "loop_frames", None)
            if frames is None:
                frames = self.loop_frames = []
            if lframe is not None:
                frames.append(lframe)
            try:
                self.exec_block(st.body, env)
            except self.E.Cont:
                pass
            except self.E.Brk:
                env.vars.pop(ghost, None)
                return
            finally:
                if lframe is not None:
                    frames.pop()
            if lframe is not None:
                self.ctx.obligations.extend(lframe.pop("pending", []))
            env.vars[ghost] = VInt(i + 1)
            self.run_ghost(lc.ghost_end, env)
            self.check_clauses(lc.invariant, env, f"inv-preserve:{tag}", st)
            raise self.E.PathEnd()
        self.path.assume(i == n)
        # keep the ghost index bound to len for facts used after the loop; then drop it
        env.vars.pop(ghost, None)

    # ------------------------------------------------------------------ calls into the repo
    def contract_for(self, mod, fn_node, qual_hint=None):
        target_prefix = mod.relpath + "::"
        for q, n in mod.defs.items():
            if n is fn_node:
                return self.ctx.by_target.get(target_prefix + q), q
        return None, None

    def call_repo_function(self, mod, fn_node, args, kwargs, node, env, recv=None):
        c, qual = self.contract_for(mod, fn_node)
        me = self.ctx.contract
        if c is not None and not (c.target == me.target and self.depth == 0 and False):
            if qual in me.inline or (c.target in me.inline):
                pass
            else:
                return self.modular_call(c, fn_node, args, kwargs, node, env, recv=recv)
        if qual in me.inline or f"{mod.relpath}::{qual}" in me.inline:
            self.ctx.inlined.add(f"{mod.relpath}::{qual}")
            menv = self.E.Env(module=mod)
            a = ([recv] if recv is not None else []) + list(args)
            return self.inline_function(fn_node, menv, a, kwargs, node, module=mod)
        self.oos(node, f"call to {mod.relpath}::{qual} without contract (not in inline list)")

    def bind_params(self, fn_node, args, kwargs, env, node, defaults_env=None):
        a = fn_node.args
        if a.vararg or a.kwarg:
            self.oos(node, "*args/**kwargs in callee")
        pos = [x.arg for x in a.posonlyargs + a.args]
        defaults = [None] * (len(pos) - len(a.defaults)) + list(a.defaults)
        for i, name in enumerate(pos):
            if i < len(args):
                env.vars[name] = args[i]
            elif name in kwargs:
                env.vars[name] = kwargs[name]
            elif defaults[i] is not None:
                env.vars[name] = self.pure_eval().ev(defaults[i], defaults_env or env)
            else:
                self.oos(node, f"missing argument {name}")
        for x, d in zip(a.kwonlyargs, a.kw_defaults):
            if x.arg in kwargs:
                env.vars[x.arg] = kwargs[x.arg]
            elif d is not None:
                env.vars[x.arg] = self.pure_eval().ev(d, defaults_env or env)
            else:
                self.oos(node, f"missing keyword argument {x.arg}")

    def inline_function(self, fn_node, def_env, args, kwargs, node, module=None):
        if self.depth > 12:
            self.oos(node, "inline depth")
        env = self.E.Env(parent=def_env, module=module)
        self.bind_params(fn_node, args, kwargs, env, node, defaults_env=def_env)
        # register loops of the inlined function under its own numbering if contract gives them
        saved_fx = self.closure_fx
        fx = dict(saved_fx)
        fx.update(self.E.closure_effects(fn_node))
        self.closure_fx = fx
        self.depth += 1
        try:
            self.exec_block(strip_docstring(fn_node.body), env)
        except self.E.Ret as r:
            return r.value
        finally:
            self.depth -= 1
            self.closure_fx = saved_fx
        return VNone()

    def modular_call(self, c: Contract, fn_node, args, kwargs, node, env, recv=None):
        """Call by contract: assert pre, havoc frame, assume post (the body is not looked at)."""
        cenv = self.E.Env(module=None)
        a = ([recv] if recv is not None else []) + list(args)
        self.bind_params(fn_node, a, kwargs, cenv, node, defaults_env=self.E.Env(module=load_module(c.relpath)))
        for k in list(cenv.vars):
            cenv.vars[k] = self.lift(cenv.vars[k])
        if self.pure:
            if not c.pure_view:
                self.oos(node, f"call to {c.name} inside a specification clause")
        sub = self.pure_eval()
        sub.entry_env = cenv
        sub.old_heap = dict(self.path.heap)
        sub.alloc_base = self.path.heap.get("$alloc")
        # old() in the callee's clauses: the registries as they are at the call
        sub.old_globals = {g: self.global_map_array(g) for g in getattr(c, "global_maps", {})}
        # preconditions
        if not self.pure:
            for cl in c.requires:
                t = sub.truth(sub.ev(ast.parse(cl, mode="eval").body, cenv))
                self.ctx.oblige(self.path, "pre@callsite", f"{c.name}: {cl} @L{getattr(node, 'lineno', 0)}", t, node)
            for var, cl in c.requires_forall:
                jv = self.path.fresh(var, z3.IntSort())
                e2 = self.E.Env(parent=cenv)
                e2.vars[var] = VInt(jv)
                # our own quantified preconditions hold at this arbitrary point as well
                me = self.ctx.contract
                for myvar, mycl in me.requires_forall:
                    e3 = self.E.Env(parent=self.entry_env)
                    e3.vars[myvar] = VInt(jv)
                    self.path.assume(sub.truth(sub.ev(ast.parse(mycl, mode="eval").body, e3)), check=False)
                t = sub.truth(sub.ev(ast.parse(cl, mode="eval").body, e2))
                self.ctx.oblige(self.path, "pre@callsite", f"{c.name}: forall {var}. {cl} @L{getattr(node, 'lineno', 0)}", t, node)
        ca = self.site_asserts(c.qualname, node) + self.site_asserts(c.name, node) if c.name != c.qualname else self.site_asserts(c.name, node)
        if ca and not self.pure:
            aenv = self.E.Env(parent=env)
            for pk in cenv.vars:
                # a caller variable that a callee parameter of the same name shadows stays reachable as caller_<name>
                cv = env.lookup(pk)
                if cv is not None:
                    aenv.vars["caller_" + pk] = cv
            aenv.vars.update(cenv.vars)
            for cl in ca:
                t = sub.truth(sub.ev(ast.parse(cl, mode="eval").body, aenv))
                self.ctx.oblige(self.path, "assert@callsite", f"{c.name}: {cl} @L{getattr(node, 'lineno', 0)}", t, node)
        outcomes = ["ok"] + sorted(c.exsures)
        k = 0 if self.pure else self.path.choose(len(outcomes))
        out = outcomes[k]
        self.heap.havoc_frame(c, cenv, sub)
        for gname in getattr(c, "global_maps", {}):
            # registry entries the callee may change (its own frame obligation): those keys get an unknown new value
            arr = self.global_map_array(gname)
            if gname not in getattr(c, "global_map_keys", {}):
                arr = self.path.fresh("G." + gname + "@hv", arr.sort())
            else:
                for kx in c.global_map_keys[gname]:
                    kt = sub.ev(ast.parse(kx, mode="eval").body, cenv).t
                    arr = z3.Store(arr, kt, self.path.fresh("G." + gname + ".entry", z3.IntSort()))
            self.path.__dict__["globals"]["map:" + gname] = arr
        if out != "ok":
            for cl in c.exsures[out]:
                t = sub.truth(sub.ev(ast.parse(cl, mode="eval").body, cenv))
                self.path.assume(t, check=False)
            self.path.assume(z3.BoolVal(True))
            raise self.E.Raised(out, node)
        tag = f"{c.name}@L{getattr(node, 'lineno', 0)}"
        if c.returns is not None and c.returns.name in ("Ref", "ListRef"):
            # a reference result may be None unless the callee's postcondition (proved there) excludes it
            cls = c.returns.args[0] if c.returns.name == "Ref" else "list"
            res = self.heap.fresh_ref("ret:" + tag, cls, maybe_none=True)
            if c.returns.name == "ListRef":
                res.elem = c.returns.args[0]
        else:
            res = self.fresh_value(c.returns, "ret:" + tag) if c.returns is not None else VNone()
        renv = self.E.Env(parent=cenv)
        renv.vars["result"] = res
        for cl in list(c.ensures) + list(c.assumed_ensures):
            t = sub.truth(sub.ev(ast.parse(cl, mode="eval").body, renv))
            self.path.assume(t, check=False)
        for cl in c.assumed_ensures:
            self.ctx.assumptions_used.add(f"assumed (not checked against the body) postcondition of {c.name}: {cl}")
        self.path.assume(z3.BoolVal(True))
        return res

    def site_asserts(self, key, node):
        """call_asserts entries for this call site: 'callee' (every site) or 'callee#k' (k-th site in source order)."""
        ca = self.ctx.contract.call_asserts
        out = list(ca.get(key, []))
        ordn = getattr(self, "call_ordinals", {}).get(id(node))
        if ordn is not None:
            out += ca.get(f"{ordn[0]}#{ordn[1]}", [])
            if ordn[0] != key:
                out += ca.get(f"{key}#{ordn[1]}", [])
        return out

    def construct(self, mod, cls_node, args, kwargs, node, env):
        name = cls_node.name
        if ty.has_record(name):
            dt, fields = ty.record(name)
            vals = {}
            for i, (f, k) in enumerate(fields):
                if i < len(args):
                    vals[f] = self.lift(args[i])
                elif f in kwargs:
                    vals[f] = self.lift(kwargs[f])
                else:
                    self.oos(node, f"record field {f} missing")
                if k == "optint" and not isinstance(vals[f], self.E.VOptInt):
                    vals[f] = self.E.VOptInt(self.E.unwrap(vals[f], "optint"))
            return VRec(name, vals)
        bases = [ast.unparse(b) for b in cls_node.bases]
        if any(b.endswith("Error") or b in ("Exception", "SyntaxError") for b in bases):
            return VPy(("excinst", name))
        return self.heap.construct(mod, cls_node, args, kwargs, node, env)


# ---------------------------------------------------------------------------------------------
# driver


class FunctionResult:
    def __init__(self, contract):
        self.contract = contract
        self.obligations = []
        self.paths = 0
        self.status = "ok"
        self.error = None
        self.exits = {}
        self.assumptions = set()
        self.inlined = set()
        self.src_hash = ""
        self.seconds = 0.0
        self.line = 0


def verify_contract(contract: Contract, registry: dict, *, max_paths=6000) -> FunctionResult:
    from . import engine as E
    from .evaluator import Evaluator
    from .source import function_source_hash

    t0 = time.time()
    res = FunctionResult(contract)
    ctx = E.Ctx(contract, registry)
    try:
        if contract.kind == "lemma":
            mod, fn = _lemma_function(contract)
        else:
            mod, fn = find_function(contract.target)
        res.src_hash = function_source_hash(mod, fn)
        res.line = fn.lineno
    except MissingFunction as e:
        res.status = "missing"
        res.error = f"function not found: {e}"
        return res
    loops = loops_in(fn)
    loop_index = {id(n): i for i, n in enumerate(loops)}
    call_ordinals = {}
    counts = {}

    class _CV(ast.NodeVisitor):
        def visit_Call(self, n):
            key = ast.unparse(n.func)
            k = counts.get(key, 0)
            counts[key] = k + 1
            call_ordinals[id(n)] = (key, k)
            self.generic_visit(n)

    _CV().visit(fn)
    closure_fx = E.closure_effects(fn)
    pending = [[]]
    pid = 0
    try:
        while pending:
            prefix = pending.pop()
            pid += 1
            if pid > max_paths:
                raise OutOfSubset(contract.name, f"more than {max_paths} paths")
            oracle = E.Oracle(prefix)
            path = E.Path(ctx, oracle, pid)
            ev = Evaluator(ctx, path, fn_name=contract.name)
            ev.loop_index = loop_index
            ev.call_ordinals = call_ordinals
            ev.closure_fx = closure_fx
            _run_path(ev, ctx, path, contract, mod, fn, res)
            tr = oracle.trace
            for k in range(len(prefix), len(tr)):
                choice, n = tr[k]
                for alt in range(choice + 1, n):
                    pending.append([c for c, _ in tr[:k]] + [alt])
    except OutOfSubset as e:
        res.status = "out-of-subset"
        res.error = str(e)
    except RecursionError as e:
        res.status = "out-of-subset"
        res.error = f"recursion: {e}"
    res.paths = pid
    res.obligations = ctx.obligations
    res.assumptions = ctx.assumptions_used
    res.inlined = ctx.inlined
    res.seconds = time.time() - t0
    return res


def _lemma_function(contract):
    """Lemmas are ghost client programs living in the sidecar file itself."""
    relpath, qual = contract.target.split("::")
    mod = load_module(relpath)
    return mod, mod.defs[qual]


def _run_path(ev, ctx, path, contract, mod, fn, res):
    from . import engine as E

    env = E.Env(module=mod)
    try:
        ev.heap.init_path()
        # parameters
        a = fn.args
        names = [x.arg for x in a.posonlyargs + a.args + a.kwonlyargs]
        for name in names:
            t = contract.params.get(name)
            if t is None:
                raise OutOfSubset(contract.name, f"parameter {name} has no type in the contract")
            v = ev.fresh_value(t, name)
            env.vars[name] = v
            _record_input(path, name, v)
        ev.heap.assume_wellformed_entry(env)
        entry = E.Env(module=mod)
        entry.vars = dict(env.vars)
        ev.entry_env = entry
        ev.old_heap = dict(path.heap)
        ev.check_clauses(contract.requires, env, "assume", fn, assume=True)
        ev.instantiate_foralls(contract.instances, env)
        path.assume(z3.BoolVal(True))
    except E.PathEnd:
        return
    exit_kind = None
    result = VNone()
    try:
        try:
            ev.exec_block(strip_docstring(fn.body), env)
            exit_kind = "return"
        except E.Ret as r:
            exit_kind = "return"
            result = r.value
        except E.Raised as r:
            exit_kind = "raise:" + r.exc
        except (E.Brk, E.Cont):
            raise OutOfSubset(contract.name, "break/continue outside loop")
        # function exit reached: postconditions
        res.exits[exit_kind] = res.exits.get(exit_kind, 0) + 1
        penv = E.Env(parent=entry)
        penv.vars["result"] = result
        if hasattr(path, "stdout"):
            penv.vars["stdout"] = VStr(path.stdout)
        else:
            penv.vars["stdout"] = VStr(S(""))
        for gname, keys in getattr(contract, "global_map_keys", {}).items():
            g = path.__dict__.get("globals", {})
            if "map:" + gname in g:
                kk = z3.Const("k!gm", z3.IntSort())
                sub0 = ev.pure_eval()
                kts = [sub0.ev(ast.parse(kx, mode="eval").body, entry).t for kx in keys]
                same = z3.ForAll([kk], z3.Implies(z3.And(*[kk != t for t in kts]) if kts else z3.BoolVal(True),
                                                  g["map:" + gname][kk] == g["map:" + gname + "@entry"][kk]))
                ctx.oblige(path, "frame", f"registry {gname}: only the entries for {', '.join(keys)} may change", same, fn)
        if exit_kind == "return":
            ev.run_ghost(contract.ghost_end, penv)
            ev.check_clauses(contract.ensures, penv, "post", fn)
            ev.heap.check_frame_at_exit(contract, penv, fn)
            sub = ev.pure_eval()
            for cl in contract.canaries:
                t = sub.truth(sub.ev(ast.parse(cl, mode="eval").body, penv))
                ctx.oblige(path, "canary", cl, t, fn, must_fail=True)
            ctx.oblige(path, "cover", "return", z3.BoolVal(False), fn, must_fail=True)
        else:
            exc = exit_kind.split(":", 1)[1]
            handled = None
            for name in contract.exsures:
                if E.exc_is(exc, name):
                    handled = name
                    break
            if handled is None:
                ctx.oblige(path, "no-unexpected-raise", f"{exc} escapes (line {path.trace_lines[-1] if path.trace_lines else 0})",
                           z3.BoolVal(False), fn)
            else:
                ev.check_clauses(contract.exsures[handled], penv, f"post-exc({handled})", fn)
                ev.heap.check_frame_at_exit(contract, penv, fn, exceptional=handled)
                ctx.oblige(path, "cover", f"raise {handled}", z3.BoolVal(False), fn, must_fail=True)
    except E.PathEnd:
        return


def _record_input(path, name, v):
    if isinstance(v, (VInt, VBool, VStr, VSeq)):
        path.inputs[name] = v.t
    elif isinstance(v, VNone):
        path.inputs[name] = None
    elif isinstance(v, VTuple):
        for i, x in enumerate(v.items):
            _record_input(path, f"{name}.{i}", x)
    elif isinstance(v, VRec):
        for f, x in v.fields.items():
            _record_input(path, f"{name}.{f}", x)
    elif isinstance(v, VRef):
        path.inputs[name] = v.t
    elif isinstance(v, VStrJoin):
        path.inputs[name + ".joined"] = v.joined
    elif isinstance(v, VObj):
        for f, x in v.fields.items():
            _record_input(path, f"{name}.{f}", x)
    elif isinstance(v, VOpaque):
        path.inputs[name] = v.t


def verify_spec_lemmas(registry) -> FunctionResult:
    """One-step closure obligations of the absorbing-predicate lemmas declared in /verif/specs."""
    from . import engine as E
    from .evaluator import Evaluator
    from .spec import LEMMAS, SPECS

    c = Contract(target="specs::lemmas", params={}, name="spec-lemmas", props=[])
    res = FunctionResult(c)
    ctx = E.Ctx(c, registry)
    for lem in LEMMAS:
        fspec = SPECS[lem.fold]
        path = E.Path(ctx, E.Oracle([]), 1)
        n = len(fspec.sorts)
        st = []
        for i, k in enumerate(fspec.sorts):
            if k.startswith("seq:"):
                srt = z3.SeqSort(ty.kind_sort(k[4:]))
            else:
                srt = ty.kind_sort(k)
            st.append(path.fresh(fspec.params[i], srt))
        ch = path.fresh("c", z3.StringSort())
        path.assume(z3.Length(ch) == 1, check=False)
        ev = Evaluator(ctx, path, pure=True)

        def pred(terms):
            env = E.Env(module=None)
            env.py_globals = fspec.globals
            for i, pname in enumerate(fspec.params[:-1]):
                env.vars[pname] = E.wrap_kind(fspec.sorts[i], terms[i])
            return ev.truth(ev.ev(ast.parse(lem.pred, mode="eval").body, env))

        p0 = pred(st)
        st2 = ctx.fold_step(path, fspec, st, ch)
        p1 = pred(st2)
        ctx.oblige(path, "spec-lemma", lem.name, z3.Implies(p0, p1))
    res.obligations = ctx.obligations
    res.paths = len(LEMMAS)
    return res
