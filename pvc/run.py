"""Run pvc on contracts: python -m pvc.run [names...]"""
from __future__ import annotations

import importlib
import json
import os
import pkgutil
import sys
import time

sys.path.insert(0, os.path.dirname(os.path.dirname(os.path.abspath(__file__))))

from pvc.contract import REGISTRY  # noqa: E402
from pvc.solve import discharge  # noqa: E402
from pvc.stmt import verify_contract  # noqa: E402


def load_contracts():
    import contracts

    for m in pkgutil.iter_modules(contracts.__path__):
        if m.name.startswith("c_"):
            importlib.import_module("contracts." + m.name)
    return REGISTRY


def run_one(name, verbose=True, timeout_ms=10000):
    reg = load_contracts()
    c = reg[name]
    res = verify_contract(c, reg)
    out = []
    for ob in res.obligations:
        r = discharge(ob, timeout_ms=timeout_ms)
        st = r["status"]
        if ob.must_fail:
            ok = st == "refuted" or (st == "undecided" and r.get("reason", "").startswith("sat-with"))
            shown = "ok(refuted as required)" if ok else f"VACUOUS?({st})"
        else:
            shown = st
        out.append((ob, r, shown))
        if verbose:
            print(f"  [{shown:>24}] {r['backend']:>8} {r['seconds']:.2f}s p{ob.path_id} {ob.kind} :: {ob.label[:100]}"
                  + (f"  model={r['model']}" if r.get("model") and not ob.must_fail else "")
                  + (f"  ({r.get('reason')})" if st == "undecided" else ""))
    print(f"{name}: status={res.status} paths={res.paths} obligations={len(res.obligations)} exits={res.exits} "
          f"time={res.seconds:.2f}s" + (f" error={res.error}" if res.error else ""))
    return res, out


if __name__ == "__main__":
    names = sys.argv[1:]
    reg = load_contracts()
    if not names:
        names = list(reg)
    for n in names:
        run_one(n)
