"""Expression evaluation and statement execution of the pvc engine (see engine.py)."""
from __future__ import annotations

import ast
from typing import Any

import z3

from . import types as ty
from .contract import Contract, Loop
from .source import (MissingFunction, Module, OutOfSubset, dotted_to_relpath, find_function,
                     load_module, loops_in, strip_docstring)
from .spec import SPECS, Spec
from .values import (V, VBool, VBound, VClosure, VInt, VMatch, VNone, VObj, VOpaque, VOptInt, VPy, VRec, VRef,
                     VArr, VSeq, VStr, VStrJoin, VTuple, is_concrete_bool)

BUILTIN_NAMES = {
    "len", "isinstance", "cast", "str", "int", "bool", "list", "tuple", "next", "any", "all",
    "enumerate", "reversed", "range", "print", "getattr", "hasattr", "id", "min", "max", "zip", "set",
    "implies", "old", "iff", "repr", "heap_unchanged", "heap_unchanged_except", "global_map", "alloc_at_entry", "ctx_value", "type", "sorted", "dict", "bytes", "float", "object",
}
EXC_NAMES = {
    "ValueError", "KeyError", "TypeError", "IndexError", "AttributeError", "AssertionError",
    "NotImplementedError", "Exception", "ResolutionError", "NixSyntaxError", "OSError",
    "FileNotFoundError", "RuntimeError", "LookupError", "SyntaxError", "ImportError",
}

TAGS = {"ctxvar", "token", "opaqueset", "generator", "builtin", "exc", "excinst", "func", "class", "extmod", "extattr", "ext", "repomod", "classattr",
        "args", "emptylist", "enumerate", "reversed", "range", "rsplit1", "idset", "modconst", "typeof", "intmap",
        "ctxmgr", "dictobj", "method"}
SENTINELS = {"linebreak": 1, "empty_line": 2, "comma": 3}
WS_CHARS = " \t\n\r\x0b\x0c"


def S(s):
    return z3.StringVal(s)


def I(n):
    return z3.IntVal(n)


def _has_ite(t):
    stack, seen = [t], set()
    while stack:
        x = stack.pop()
        if x.get_id() in seen:
            continue
        seen.add(x.get_id())
        if z3.is_app(x) and x.decl().kind() == z3.Z3_OP_ITE:
            return True
        stack.extend(x.children())
    return False


def _has_quant_term(t):
    stack, seen = [t], set()
    while stack:
        x = stack.pop()
        if x.get_id() in seen:
            continue
        seen.add(x.get_id())
        if z3.is_quantifier(x):
            return True
        stack.extend(x.children())
    return False


def _mentions(f, const, _seen=None):
    """Does the z3 term `f` contain the constant `const`?"""
    cid = const.get_id()
    stack = [f]
    seen = set()
    while stack:
        t = stack.pop()
        i = t.get_id()
        if i in seen:
            continue
        seen.add(i)
        if i == cid:
            return True
        if z3.is_quantifier(t):
            stack.append(t.body())
        else:
            stack.extend(t.children())
    return False


class Evaluator:
    def __init__(self, ctx, path, *, pure=False, fn_name="?"):
        from . import engine as E

        self.E = E
        self.ctx = ctx
        self.path = path
        self.pure = pure
        self.fn_name = fn_name
        self.guards: list = []  # short-circuit guards (pure mode bookkeeping)
        self.closure_fx: dict = {}
        self.loop_index: dict = {}
        self.old_heap = None
        self.entry_env = None
        self.depth = 0
        self.call_ordinals = {}

    # ------------------------------------------------------------------ helpers
    def oos(self, node, what):
        raise OutOfSubset(f"{self.fn_name}:{getattr(node, 'lineno', '?')}", what)

    def fresh_value(self, t: ty.T, base: str) -> V:
        p = self.path
        n = t.name
        if n == "Int":
            return VInt(p.fresh(base, z3.IntSort()))
        if n == "Bool":
            return VBool(p.fresh(base, z3.BoolSort()))
        if n == "Str":
            return VStr(p.fresh(base, z3.StringSort()))
        if n == "Bytes":
            return VStr(p.fresh(base, z3.StringSort()), is_bytes=True)
        if n == "Char":
            v = VStr(p.fresh(base, z3.StringSort()), is_char=True)
            p.assume(z3.Length(v.t) == 1, check=False)
            return v
        if n == "None":
            return VNone()
        if n == "Opt":
            c = p.choose(2)
            if c == 0:
                return VNone()
            return self.fresh_value(t.args[0], base)
        if n == "OneOf":
            c = p.choose(len(t.args))
            return self.fresh_value(t.args[c], base)
        if n == "Tup":
            return VTuple([self.fresh_value(a, f"{base}.{i}") for i, a in enumerate(t.args)])
        if n == "Seq":
            kind = t.args[0]
            return VSeq(p.fresh(base, z3.SeqSort(ty.kind_sort(kind))), kind)
        if n == "StrJoin":
            nn = p.fresh(base + ".n", z3.IntSort())
            p.assume(nn >= 0, check=False)
            return VStrJoin(p.fresh(base + ".joined", z3.StringSort()), nn)
        if n == "Arr":
            kind = t.args[0]
            ln = p.fresh(base + ".len", z3.IntSort())
            p.assume(ln >= 0, check=False)
            return VArr(p.fresh(base, z3.ArraySort(z3.IntSort(), ty.kind_sort(kind))), I(0), ln, kind)
        if n == "Rec":
            cls = t.args[0]
            dt, fields = ty.record(cls)
            return self.E.wrap_kind(cls, p.fresh(base, dt))
        if n == "Ref":
            return self.heap.fresh_ref(base, t.args[0])
        if n == "ListRef":
            r = self.heap.fresh_ref(base, "list")
            r.elem = t.args[0]
            return r
        if n == "Opaque":
            return VOpaque(p.fresh(base, z3.IntSort()))
        if n == "Lit":
            return self.lift(VPy(t.args[0]))
        if n == "Class":
            mod = load_module(self.ctx.contract.relpath)
            return VPy(("class", mod, mod.defs[t.args[0]]), t.args[0])
        if n == "Obj":
            return VObj({f: self.fresh_value(ft, f"{base}.{f}") for f, ft in t.args}, base)
        raise OutOfSubset("type", repr(t))

    def fresh_like(self, v: V, base: str) -> V:
        p = self.path
        if isinstance(v, VInt):
            return VInt(p.fresh(base, z3.IntSort()))
        if isinstance(v, VBool):
            return VBool(p.fresh(base, z3.BoolSort()))
        if isinstance(v, VStr):
            return VStr(p.fresh(base, z3.StringSort()), is_bytes=v.is_bytes)
        if isinstance(v, VSeq):
            return VSeq(p.fresh(base, v.t.sort()), v.kind)
        if isinstance(v, VStrJoin):
            nn = p.fresh(base + ".n", z3.IntSort())
            p.assume(nn >= 0, check=False)
            return VStrJoin(p.fresh(base + ".joined", z3.StringSort()), nn)
        if isinstance(v, VTuple):
            return VTuple([self.fresh_like(x, f"{base}.{i}") for i, x in enumerate(v.items)])
        if isinstance(v, VRec):
            dt, fields = ty.record(v.cls)
            return self.E.wrap_kind(v.cls, p.fresh(base, dt))
        if isinstance(v, VRef):
            return self.heap.fresh_ref(base, v.cls, maybe_none=True)
        if isinstance(v, (VNone, VPy, VClosure, VBound)):
            return v
        if isinstance(v, VMatch):
            return VMatch(p.fresh(base, z3.BoolSort()))
        if isinstance(v, VOptInt):
            return VOptInt(p.fresh(base, ty.optint_sort()))
        if isinstance(v, VOpaque):
            return VOpaque(p.fresh(base, z3.IntSort()), v.sort_name)
        if isinstance(v, VObj):
            return VObj({f: self.fresh_like(x, f"{base}.{f}") for f, x in v.fields.items()}, v.label)
        raise OutOfSubset("havoc", type(v).__name__)

    @property
    def heap(self):
        from .heap import HeapOps

        return HeapOps(self)

    # ------------------------------------------------------------------ truthiness / equality
    def truth(self, v: V):
        if isinstance(v, VBool):
            return v.t
        if isinstance(v, VInt):
            return v.t != 0
        if isinstance(v, VStr):
            return z3.Length(v.t) > 0
        if isinstance(v, VSeq):
            return z3.Length(v.t) > 0
        if isinstance(v, (VStrJoin, VArr)):
            return v.n > 0
        if isinstance(v, VNone):
            return z3.BoolVal(False)
        if isinstance(v, VTuple):
            return z3.BoolVal(len(v.items) > 0)
        if isinstance(v, VMatch):
            return v.t
        if isinstance(v, VOptInt):
            O = ty.optint_sort()
            return z3.And(O.is_some(v.t), O.val(v.t) != 0)
        if isinstance(v, VRef):
            return self.heap.truth(v)
        if isinstance(v, VRec):
            return z3.BoolVal(True)
        if isinstance(v, VPy):
            if isinstance(v.obj, (bool, int, str, tuple, type(None))):
                return z3.BoolVal(bool(v.obj))
            return z3.BoolVal(True)
        if isinstance(v, VOpaque):
            f = z3.Function("truthy", z3.IntSort(), z3.BoolSort())
            return f(v.t)
        if isinstance(v, (VClosure, VBound, VObj)):
            return z3.BoolVal(True)
        raise OutOfSubset("truth", type(v).__name__)

    def lift(self, v: V) -> V:
        """Concrete python constants to symbolic values."""
        if isinstance(v, VPy):
            o = v.obj
            if isinstance(o, bool):
                return VBool(z3.BoolVal(o))
            if isinstance(o, int):
                return VInt(I(o))
            if isinstance(o, str):
                return VStr(S(o), is_char=len(o) == 1)
            if isinstance(o, bytes):
                return VStr(S(o.decode("latin-1")), is_char=len(o) == 1, is_bytes=True)
            if o is None:
                return VNone()
            if isinstance(o, tuple) and not (o and isinstance(o[0], str) and o[0] in TAGS):
                return VTuple([self.lift(VPy(x)) for x in o])
        return v

    def eq(self, a: V, b: V):
        a, b = self.lift(a), self.lift(b)
        if isinstance(a, VNone) or isinstance(b, VNone):
            if isinstance(a, VNone) and isinstance(b, VNone):
                return z3.BoolVal(True)
            other = b if isinstance(a, VNone) else a
            if isinstance(other, VRef):
                return other.t == 0
            if isinstance(other, VMatch):
                return z3.Not(other.t)
            if isinstance(other, VOptInt):
                return ty.optint_sort().is_none(other.t)
            return z3.BoolVal(False)
        if isinstance(a, VOptInt) or isinstance(b, VOptInt):
            O = ty.optint_sort()
            if isinstance(a, VOptInt) and isinstance(b, VOptInt):
                return a.t == b.t
            o, i = (a, b) if isinstance(a, VOptInt) else (b, a)
            if isinstance(i, VInt):
                return z3.And(O.is_some(o.t), O.val(o.t) == i.t)
            return z3.BoolVal(False)
        if isinstance(a, VInt) and isinstance(b, VInt):
            return a.t == b.t
        if isinstance(a, VBool) and isinstance(b, VBool):
            return a.t == b.t
        if isinstance(a, VBool) and isinstance(b, VInt):
            return z3.If(a.t, I(1), I(0)) == b.t
        if isinstance(a, VInt) and isinstance(b, VBool):
            return self.eq(b, a)
        if isinstance(a, VStr) and isinstance(b, VStr):
            return a.t == b.t
        if isinstance(a, VSeq) and isinstance(b, VSeq):
            if a.kind != b.kind:
                return z3.And(z3.Length(a.t) == 0, z3.Length(b.t) == 0)
            return a.t == b.t
        if isinstance(a, VArr) and isinstance(b, VArr):
            # sequence equality: same length and the same elements (the same view trivially so)
            if a.kind != b.kind:
                return z3.And(a.n == 0, b.n == 0)
            j = z3.Int("eqarr!j")
            return z3.And(a.n == b.n, z3.ForAll([j], z3.Implies(z3.And(j >= 0, j < a.n), z3.Select(a.arr, a.off + j) == z3.Select(b.arr, b.off + j))))
        if isinstance(a, VTuple) and isinstance(b, VTuple):
            if len(a.items) != len(b.items):
                return z3.BoolVal(False)
            return z3.And(*[self.eq(x, y) for x, y in zip(a.items, b.items)]) if a.items else z3.BoolVal(True)
        if isinstance(a, VRec) and isinstance(b, VRec):
            if a.cls != b.cls:
                return z3.BoolVal(False)
            return z3.And(*[self.eq(a.fields[f], b.fields[f]) for f in a.fields])
        if isinstance(a, VRef) and isinstance(b, VRef):
            return self.heap.pyeq(a, b)
        if isinstance(a, VStrJoin) and isinstance(b, VSeq):
            return z3.And(a.n == 0, z3.Length(b.t) == 0) if True else None
        if isinstance(a, VPy) and isinstance(b, VPy):
            return z3.BoolVal(a.obj is b.obj or a.obj == b.obj)
        if isinstance(a, VOpaque) and isinstance(b, VOpaque):
            return a.t == b.t
        # different shapes never compare equal in the subset (str vs int, ...)
        if type(a) is not type(b):
            return z3.BoolVal(False)
        raise OutOfSubset("eq", f"{type(a).__name__} == {type(b).__name__}")

    def ite(self, c, a: V, b: V) -> V:
        s = z3.simplify(c)
        if z3.is_true(s):
            return a
        if z3.is_false(s):
            return b
        a, b = self.lift(a), self.lift(b)
        if isinstance(a, VInt) and isinstance(b, VInt):
            return VInt(z3.If(c, a.t, b.t))
        if isinstance(a, VBool) and isinstance(b, VBool):
            return VBool(z3.If(c, a.t, b.t))
        if isinstance(a, VStr) and isinstance(b, VStr):
            return VStr(z3.If(c, a.t, b.t), is_char=a.is_char and b.is_char, is_bytes=a.is_bytes)
        if isinstance(a, VSeq) and isinstance(b, VSeq) and a.kind == b.kind:
            return VSeq(z3.If(c, a.t, b.t), a.kind)
        if isinstance(a, VTuple) and isinstance(b, VTuple) and len(a.items) == len(b.items):
            return VTuple([self.ite(c, x, y) for x, y in zip(a.items, b.items)])
        if isinstance(a, VRec) and isinstance(b, VRec) and a.cls == b.cls:
            return VRec(a.cls, {f: self.ite(c, a.fields[f], b.fields[f]) for f in a.fields})
        if isinstance(a, VNone) and isinstance(b, VNone):
            return a
        if isinstance(a, VRef) and isinstance(b, VRef):
            return VRef(z3.If(c, a.t, b.t), a.cls if a.cls == b.cls else None)
        if isinstance(a, VRef) and isinstance(b, VNone):
            return VRef(z3.If(c, a.t, I(0)), a.cls)
        if isinstance(a, VNone) and isinstance(b, VRef):
            return VRef(z3.If(c, I(0), b.t), b.cls)
        if isinstance(a, VStrJoin) and isinstance(b, VStrJoin):
            return VStrJoin(z3.If(c, a.joined, b.joined), z3.If(c, a.n, b.n))
        if isinstance(a, VMatch) and isinstance(b, VMatch):
            return VMatch(z3.If(c, a.t, b.t))
        if isinstance(a, (VOptInt, VInt, VNone)) and isinstance(b, (VOptInt, VInt, VNone)):
            return VOptInt(z3.If(c, self.E.unwrap(a, "optint"), self.E.unwrap(b, "optint")))
        if isinstance(a, VPy) and isinstance(b, VPy) and a.obj is b.obj:
            return a
        raise OutOfSubset("ite", f"{type(a).__name__} / {type(b).__name__}")

    # ------------------------------------------------------------------ name resolution
    def resolve_name(self, name: str, env, node=None) -> V:
        v = env.lookup(name)
        if v is not None:
            return v
        if self.pure and name in SPECS:
            return VPy(SPECS[name], name)
        mod = env.module
        if mod is not None:
            r = self.resolve_module_name(mod, name)
            if r is not None:
                return r
        if name in SPECS:
            return VPy(SPECS[name], name)
        if name in EXC_NAMES:
            return VPy(("exc", name), name)
        if name in BUILTIN_NAMES:
            return VPy(("builtin", name), name)
        if name in ("True", "False", "None"):
            return self.lift(VPy({"True": True, "False": False, "None": None}[name]))
        # spec-module globals (constants) when evaluating spec functions
        g = getattr(env, "py_globals", None)
        e = env
        while g is None and e is not None:
            g = getattr(e, "py_globals", None)
            e = e.parent
        if g is not None and name in g:
            o = g[name]
            if isinstance(o, (bool, int, str, tuple)):
                return self.lift(VPy(o))
            if callable(o) and getattr(o, "__name__", None) in SPECS:
                return VPy(SPECS[o.__name__], name)
        for sp in SPECS.values():
            o = sp.globals.get(name)
            if o is not None and isinstance(o, (bool, int, str)) and name.isupper():
                return self.lift(VPy(o))
        self.oos(node, f"unresolved name {name}")

    def resolve_module_name(self, mod: Module, name: str, _depth=0):
        if name in SENTINELS and (name in mod.imports or name in mod.consts):
            return VRef(I(SENTINELS[name]), "sentinel")
        if name in mod.defs:
            n = mod.defs[name]
            if isinstance(n, ast.ClassDef):
                return VPy(("class", mod, n), name)
            return VPy(("func", mod, n), name)
        if name in getattr(self.ctx.contract, "global_maps", {}) and name in mod.consts:
            return VPy(("intmap", name, self.ctx.contract.global_maps[name]), name)
        if name in mod.consts:
            key = ("const", mod.relpath, name)
            cache = self.path.__dict__.setdefault("_const_cache", {})
            if key in cache:
                return cache[key]
            sub = Evaluator(self.ctx, self.path, pure=True, fn_name=f"{mod.relpath}:{name}")
            menv = self.E.Env(module=mod)
            try:
                val = sub.ev(mod.consts[name], menv)
            except OutOfSubset:
                val = VPy(("modconst", mod.relpath, name), name)
            cache[key] = val
            return val
        if name in mod.imports:
            dotted, orig = mod.imports[name]
            if orig is None:
                return VPy(("extmod", dotted), name)
            rel = dotted_to_relpath(dotted)
            if rel is None:
                if orig in EXC_NAMES:
                    return VPy(("exc", orig), orig)
                return VPy(("ext", dotted, orig), name)
            if _depth > 6:
                return None
            m2 = load_module(rel)
            r = self.resolve_module_name(m2, orig, _depth + 1)
            if r is None:
                # maybe a submodule
                rel2 = dotted_to_relpath(dotted + "." + orig)
                if rel2:
                    return VPy(("repomod", rel2), name)
            return r
        return None

    # ------------------------------------------------------------------ expressions
    def ev(self, node, env) -> V:
        m = getattr(self, "ev_" + type(node).__name__, None)
        if m is None:
            self.oos(node, f"expression {type(node).__name__}")
        return m(node, env)

    def ev_Constant(self, node, env):
        v = node.value
        if isinstance(v, (bool, int, str, bytes)) or v is None:
            return self.lift(VPy(v))
        if v is Ellipsis:
            return VPy(Ellipsis)
        self.oos(node, f"constant {v!r}")

    def ev_Name(self, node, env):
        return self.resolve_name(node.id, env, node)

    def ev_Tuple(self, node, env):
        return VTuple([self.ev(e, env) for e in node.elts])

    def ev_List(self, node, env):
        if not node.elts:
            return VPy(("emptylist",))
        items = [self.ev(e, env) for e in node.elts]
        return self.list_from_items(items, node)

    def list_from_items(self, items, node=None):
        items = [self.lift(x) for x in items]
        if all(isinstance(x, VStr) for x in items):
            return VSeq(z3.Concat(*[z3.Unit(x.t) for x in items]) if len(items) > 1 else z3.Unit(items[0].t), "str")
        if all(isinstance(x, VInt) for x in items):
            return VSeq(z3.Concat(*[z3.Unit(x.t) for x in items]) if len(items) > 1 else z3.Unit(items[0].t), "int")
        if all(isinstance(x, VRec) for x in items) and len({x.cls for x in items}) == 1:
            us = [z3.Unit(self.E.unwrap(x)) for x in items]
            return VSeq(z3.Concat(*us) if len(us) > 1 else us[0], items[0].cls)
        if all(isinstance(x, (VRef, VNone)) for x in items):
            return self.heap.new_list(items)
        if all(isinstance(x, VTuple) and 1 <= len(x.items) <= 3 and all(isinstance(self.lift(y), (VRef, VNone)) for y in x.items) for x in items):
            r = self.heap.new_list(items)  # tuples of references are boxed (heap.as_ref)
            r.elem = "tuple"
            return r
        self.oos(node, "list literal of mixed shapes")

    def ev_JoinedStr(self, node, env):
        parts = []
        for p in node.values:
            if isinstance(p, ast.Constant):
                parts.append(S(p.value))
            elif isinstance(p, ast.FormattedValue):
                if p.format_spec is not None or p.conversion not in (-1, 115):
                    if p.conversion == 114:  # !r - only inside error messages
                        parts.append(self.path.fresh("repr", z3.StringSort()))
                        continue
                    self.oos(node, "f-string format spec")
                v = self.lift(self.ev(p.value, env))
                parts.append(self.to_str(v, node).t)
            else:
                self.oos(node, "f-string part")
        if not parts:
            return VStr(S(""))
        if len(parts) == 1:
            return VStr(parts[0])
        return VStr(z3.Concat(*parts))

    def to_str(self, v: V, node=None) -> VStr:
        v = self.lift(v)
        if isinstance(v, VStr):
            return v
        if isinstance(v, VInt):
            return VStr(z3.If(v.t >= 0, z3.IntToStr(v.t), z3.Concat(S("-"), z3.IntToStr(-v.t))))
        if isinstance(v, VBool):
            return VStr(z3.If(v.t, S("True"), S("False")))
        if isinstance(v, VNone):
            return VStr(S("None"))
        # anything else only occurs inside exception messages: opaque text
        return VStr(self.path.fresh("strof", z3.StringSort()))

    def ev_BoolOp(self, node, env):
        is_and = isinstance(node.op, ast.And)
        if self.pure:
            # value semantics for booleans only; short-circuit on concrete operands
            acc = None
            terms = []
            for sub in node.values:
                v = self.ev(sub, env)
                t = self.truth(v)
                s = z3.simplify(t)
                if is_and and z3.is_false(s):
                    terms.append(s)
                    break
                if (not is_and) and z3.is_true(s):
                    terms.append(s)
                    break
                terms.append(t)
            if len(terms) == 1:
                return VBool(terms[0])
            return VBool(z3.And(*terms) if is_and else z3.Or(*terms))
        # code mode: Python semantics (returns the deciding operand)
        last = None
        for i, sub in enumerate(node.values):
            v = self.ev(sub, env)
            last = v
            if i == len(node.values) - 1:
                break
            t = self.truth(v)
            b = self.path.branch(t)
            if is_and and not b:
                return v
            if (not is_and) and b:
                return v
        return last

    def ev_UnaryOp(self, node, env):
        v = self.lift(self.ev(node.operand, env))
        if isinstance(node.op, ast.Not):
            return VBool(z3.Not(self.truth(v)))
        if isinstance(node.op, ast.USub) and isinstance(v, VInt):
            return VInt(-v.t)
        if isinstance(node.op, ast.UAdd) and isinstance(v, VInt):
            return v
        self.oos(node, "unary op")

    def ev_IfExp(self, node, env):
        c = self.truth(self.ev(node.test, env))
        if self.pure:
            s = z3.simplify(c)
            if z3.is_true(s):
                return self.ev(node.body, env)
            if z3.is_false(s):
                return self.ev(node.orelse, env)
            return self.ite(c, self.ev(node.body, env), self.ev(node.orelse, env))
        if self.path.branch(c):
            return self.ev(node.body, env)
        return self.ev(node.orelse, env)

    def ev_BinOp(self, node, env):
        a = self.lift(self.ev(node.left, env))
        b = self.lift(self.ev(node.right, env))
        return self.binop(node.op, a, b, node)

    def as_int(self, v):
        if isinstance(v, VOptInt):
            return VInt(ty.optint_sort().val(v.t))
        return v

    def binop(self, op, a, b, node=None):
        a, b = self.as_int(a), self.as_int(b)
        if isinstance(a, VPy) and a.obj == ("emptylist",):
            a = self.empty_like(b)
        if isinstance(b, VPy) and b.obj == ("emptylist",):
            b = self.empty_like(a)
        if isinstance(a, VBool):
            a = VInt(z3.If(a.t, I(1), I(0)))
        if isinstance(b, VBool):
            b = VInt(z3.If(b.t, I(1), I(0)))
        if isinstance(a, VInt) and isinstance(b, VInt):
            if isinstance(op, ast.Add):
                return VInt(a.t + b.t)
            if isinstance(op, ast.Sub):
                return VInt(a.t - b.t)
            if isinstance(op, ast.Mult):
                return VInt(a.t * b.t)
            if isinstance(op, ast.FloorDiv):
                return VInt(a.t / b.t)
            if isinstance(op, ast.Mod):
                return VInt(a.t % b.t)
        if isinstance(a, VStr) and isinstance(b, VStr) and isinstance(op, ast.Add):
            return VStr(z3.Concat(a.t, b.t), is_bytes=a.is_bytes)
        if isinstance(op, ast.Mult) and isinstance(a, VStr) and isinstance(b, VInt):
            return self.str_repeat(a, b, node)
        if isinstance(op, ast.Mult) and isinstance(a, VInt) and isinstance(b, VStr):
            return self.str_repeat(b, a, node)
        if isinstance(a, VSeq) and isinstance(b, VSeq) and isinstance(op, ast.Add) and a.kind == b.kind:
            return VSeq(z3.Concat(a.t, b.t), a.kind)
        if isinstance(a, VTuple) and isinstance(b, VTuple) and isinstance(op, ast.Add):
            return VTuple(a.items + b.items)
        if isinstance(a, VOpaque) and isinstance(b, VOpaque):
            f = z3.Function("op_" + type(op).__name__, z3.IntSort(), z3.IntSort(), z3.IntSort())
            return VOpaque(f(a.t, b.t))
        if isinstance(a, VRef) and isinstance(b, VRef) and isinstance(op, ast.Add):
            return self.heap.list_concat(a, b)
        self.oos(node, f"binop {type(op).__name__} on {type(a).__name__},{type(b).__name__}")

    def empty_like(self, other):
        if isinstance(other, VSeq):
            return VSeq(z3.Empty(other.t.sort()), other.kind)
        if isinstance(other, VStrJoin):
            return VStrJoin(S(""), I(0))
        if isinstance(other, VRef):
            return self.heap.new_list([])
        return other

    def str_repeat(self, s: VStr, n: VInt, node):
        if z3.is_string_value(s.t) and s.t.as_string() == " ":
            nn = z3.simplify(n.t)
            if z3.is_int_value(nn):
                return VStr(S(" " * max(nn.as_long(), 0)))
            for ax in self.E.space_axioms(n.t):
                self.path.add_axiom(ax)
            return VStr(self.E.spaces(n.t))
        nn = z3.simplify(n.t)
        if z3.is_int_value(nn) and z3.is_string_value(s.t):
            return VStr(S(s.t.as_string() * max(nn.as_long(), 0)))
        self.oos(node, "string repetition")

    def ev_Compare(self, node, env):
        left = self.lift(self.ev(node.left, env))
        terms = []
        for op, rnode in zip(node.ops, node.comparators):
            right = self.lift(self.ev(rnode, env))
            terms.append(self.compare(op, left, right, node))
            left = right
        if len(terms) == 1:
            return VBool(terms[0])
        return VBool(z3.And(*terms))

    def compare(self, op, a, b, node=None):
        if isinstance(op, ast.Eq):
            return self.eq(a, b)
        if isinstance(op, ast.NotEq):
            return z3.Not(self.eq(a, b))
        if isinstance(op, (ast.Is, ast.IsNot)):
            r = self.identical(a, b, node)
            return r if isinstance(op, ast.Is) else z3.Not(r)
        if isinstance(op, (ast.Lt, ast.LtE, ast.Gt, ast.GtE)):
            a, b = self.as_int(a), self.as_int(b)
            if isinstance(a, VBool):
                a = VInt(z3.If(a.t, I(1), I(0)))
            if isinstance(b, VBool):
                b = VInt(z3.If(b.t, I(1), I(0)))
            if isinstance(a, VRef) and isinstance(b, VInt) and self.pure:
                a = VInt(a.t)
            if isinstance(a, VInt) and isinstance(b, VInt):
                return {ast.Lt: a.t < b.t, ast.LtE: a.t <= b.t, ast.Gt: a.t > b.t, ast.GtE: a.t >= b.t}[type(op)]
            self.oos(node, "ordering on non-ints")
        if isinstance(op, (ast.In, ast.NotIn)):
            r = self.contains(b, a, node)
            return r if isinstance(op, ast.In) else z3.Not(r)
        self.oos(node, f"compare {type(op).__name__}")

    def identical(self, a, b, node=None):
        if isinstance(a, VNone) or isinstance(b, VNone):
            return self.eq(a, b)
        if isinstance(a, VRef) and isinstance(b, VRef):
            return a.t == b.t
        if isinstance(a, VPy) and isinstance(b, VPy):
            return z3.BoolVal(a.obj is b.obj or (isinstance(a.obj, tuple) and a.obj == b.obj))
        if isinstance(a, VBool) and isinstance(b, VBool):
            return a.t == b.t
        if isinstance(a, VOpaque) and isinstance(b, VOpaque):
            return a.t == b.t
        if type(a) is not type(b):
            return z3.BoolVal(False)
        self.oos(node, f"`is` on {type(a).__name__}")

    def contains(self, container, item, node=None):
        if isinstance(container, VTuple):
            if not container.items:
                return z3.BoolVal(False)
            return z3.Or(*[self.eq(item, x) for x in container.items])
        if isinstance(container, VStr) and isinstance(item, VStr):
            return z3.Contains(container.t, item.t)
        if isinstance(container, VSeq):
            return z3.Contains(container.t, z3.Unit(self.E.unwrap(item)))
        if isinstance(container, VRef):
            return self.heap.list_contains(container, item, node)
        if isinstance(container, VPy) and isinstance(container.obj, tuple) and container.obj and container.obj[0] == "idset":
            return self.heap.idset_contains(container, item)
        if isinstance(container, VPy) and container.obj == ("opaqueset",):
            return self.path.fresh("inset", z3.BoolSort())
        self.oos(node, f"`in` on {type(container).__name__}")

    # -- subscripts
    def norm_index(self, idx, length):
        """Python index normalisation for slices (clamped)."""
        s = z3.simplify(idx)
        if z3.is_int_value(s):
            k = s.as_long()
            if k >= 0:
                if k == 0:
                    return I(0)
                return z3.If(s <= length, s, length)
            return z3.If(length + s >= 0, length + s, I(0))
        if self.path.entails_quick(z3.And(idx >= 0, idx <= length)):
            return idx
        return z3.If(idx < 0, z3.If(idx + length < 0, I(0), idx + length), z3.If(idx > length, length, idx))

    def ev_Subscript(self, node, env):
        base = self.lift(self.ev(node.value, env))
        sl = node.slice
        if isinstance(sl, ast.Slice):
            if sl.step is not None:
                self.oos(node, "slice step")
            lo = self.lift(self.ev(sl.lower, env)) if sl.lower is not None else None
            hi = self.lift(self.ev(sl.upper, env)) if sl.upper is not None else None
            return self.slice_value(base, lo, hi, node)
        idx = self.lift(self.ev(sl, env))
        return self.index_value(base, idx, node)

    def slice_value(self, base, lo, hi, node=None):
        if isinstance(base, (VStr, VSeq)):
            length = z3.Length(base.t)
            a = self.norm_index(lo.t, length) if lo is not None else I(0)
            b = self.norm_index(hi.t, length) if hi is not None else length
            n = z3.simplify(b - a)
            if not (z3.is_int_value(n) and n.as_long() >= 0):
                if not self.path.entails_quick(b >= a):
                    n = z3.If(b >= a, b - a, I(0))
            ns = z3.simplify(n)
            as_ = z3.simplify(a)
            if z3.is_int_value(ns) and ns.as_long() == 0:
                t = z3.Empty(base.t.sort())
            elif z3.is_int_value(as_) and as_.as_long() == 0 and z3.eq(ns, z3.simplify(length)):
                t = base.t
            else:
                t = z3.SubString(base.t, a, n)
            if isinstance(base, VStr):
                if z3.is_int_value(z3.simplify(a)) and z3.simplify(a).as_long() == 0:
                    self.path.prefix_slices.setdefault(base.t.get_id(), []).append((base.t, z3.simplify(n)))
                return VStr(t, is_bytes=base.is_bytes)
            return VSeq(t, base.kind)
        if isinstance(base, VArr):
            a = self.norm_index(lo.t, base.n) if lo is not None else I(0)
            b = self.norm_index(hi.t, base.n) if hi is not None else base.n
            n = z3.simplify(z3.If(b >= a, b - a, I(0)))
            return VArr(base.arr, z3.simplify(base.off + a), n, base.kind)
        if isinstance(base, VTuple):
            lo_i = self.const_int(lo) if lo is not None else None
            hi_i = self.const_int(hi) if hi is not None else None
            return VTuple(base.items[lo_i:hi_i])
        if isinstance(base, VRef):
            return self.heap.list_slice(base, lo, hi, node)
        self.oos(node, f"slice of {type(base).__name__}")

    def const_int(self, v, node=None):
        if isinstance(v, VInt):
            s = z3.simplify(v.t)
            if z3.is_int_value(s):
                return s.as_long()
        self.oos(node, "non-constant index")

    def index_value(self, base, idx, node=None):
        if isinstance(base, VPy) and isinstance(base.obj, tuple) and base.obj and base.obj[0] == "rsplit1":
            _, s, sep = base.obj
            k = self.const_int(idx, node)
            if not (z3.is_string_value(sep.t) and len(sep.t.as_string()) == 1):
                self.oos(node, "rsplit with a separator that is not one character")
            res, pre = self.E.after_last(self.path, s.t, sep.t)
            if k == -1:
                return VStr(res)
            if k == 0:
                return VStr(z3.If(z3.Contains(s.t, sep.t), pre, s.t))
            self.oos(node, "rsplit index")
        if isinstance(base, VTuple):
            return base.items[self.const_int(idx, node)]
        if isinstance(base, (VStr, VSeq)) and isinstance(idx, VInt):
            length = z3.Length(base.t)
            s = z3.simplify(idx.t)
            if z3.is_int_value(s) and s.as_long() < 0:
                pos = length + s
                ok = length >= -s.as_long()
            elif z3.is_int_value(s) or self.path.entails_quick(idx.t >= 0):
                pos = idx.t
                ok = idx.t < length
            else:
                pos = z3.If(idx.t < 0, idx.t + length, idx.t)
                ok = z3.And(idx.t < length, idx.t >= -length)
            if not self.pure:
                self.ctx.oblige(self.path, "index-bounds", f"L{getattr(node, 'lineno', 0)}:{ast.unparse(node) if node is not None else ''}", ok, node)
                self.path.assume(ok, check=False)
            if isinstance(base, VStr):
                t = z3.SubString(base.t, pos, 1)
                if base.is_bytes:
                    return VInt(z3.StrToCode(t))
                return VStr(t, is_char=True)
            return self.E.wrap_kind(base.kind, base.t[pos])
        if isinstance(base, VArr) and isinstance(idx, VInt):
            length = base.n
            s = z3.simplify(idx.t)
            if z3.is_int_value(s) and s.as_long() < 0:
                pos, ok = length + s, length >= -s.as_long()
            elif z3.is_int_value(s) or self.path.entails_quick(idx.t >= 0):
                pos, ok = idx.t, idx.t < length
            else:
                pos, ok = z3.If(idx.t < 0, idx.t + length, idx.t), z3.And(idx.t < length, idx.t >= -length)
            if not self.pure:
                self.ctx.oblige(self.path, "index-bounds", f"L{getattr(node, 'lineno', 0)}:{ast.unparse(node) if node is not None else ''}", ok, node)
                self.path.assume(ok, check=False)
            return self.E.wrap_kind(base.kind, base.arr[z3.simplify(base.off + pos)])
        if isinstance(base, VRef):
            return self.heap.subscript(base, idx, node)
        if isinstance(base, VOpaque) and isinstance(idx, VInt):
            f = z3.Function("item_of", z3.IntSort(), z3.IntSort(), z3.IntSort())
            return VOpaque(f(base.t, idx.t))
        if isinstance(base, VStrJoin):
            self.oos(node, "index into joined list")
        self.oos(node, f"subscript of {type(base).__name__}")

    def ev_Attribute(self, node, env):
        base = self.ev(node.value, env)
        return self.getattr_value(base, node.attr, node)

    def getattr_value(self, base, attr, node=None):
        base = self.lift(base)
        if isinstance(base, VRec):
            if attr in base.fields:
                return base.fields[attr]
            self.oos(node, f"record field {attr}")
        if isinstance(base, VRef):
            return self.heap.getattr(base, attr, node)
        if isinstance(base, VObj):
            if attr in base.fields:
                return base.fields[attr]
            return VBound(base, attr)
        if isinstance(base, VOpaque):
            if attr in self.ctx.contract.opaque_methods:
                return VBound(base, attr)
            f = z3.Function("attr_" + attr, z3.IntSort(), z3.IntSort())
            return VOpaque(f(base.t), attr)
        if isinstance(base, VPy) and isinstance(base.obj, tuple):
            tag = base.obj[0]
            if tag == "extmod":
                return VPy(("extattr", base.obj[1], attr), f"{base.obj[1]}.{attr}")
            if tag == "repomod":
                m2 = load_module(base.obj[1])
                r = self.resolve_module_name(m2, attr)
                if r is not None:
                    return r
            if tag == "class":
                return VPy(("classattr", base.obj[1], base.obj[2], attr), attr)
            if tag == "args":
                return base.obj[1][attr]
        if isinstance(base, (VStr, VSeq, VStrJoin, VTuple, VMatch)) or (isinstance(base, VPy)):
            return VBound(base, attr)
        self.oos(node, f"attribute {attr} of {type(base).__name__}")

    # ------------------------------------------------------------------ calls
    def ev_Dict(self, node, env):
        d = {}
        for k, v in zip(node.keys, node.values):
            if not (isinstance(k, ast.Constant) and isinstance(k.value, str)):
                self.oos(node, "dict literal with non-constant key")
            d[k.value] = self.ev(v, env)
        from specs import heap_schema as HS

        if d and all(k in HS.FIELDS for k in d) and any(isinstance(self.lift(v), (VRef, VNone)) for v in d.values()):
            return self.heap.new_dict(d, node)
        return VPy(("dictobj", d))

    def ev_SetComp(self, node, env):
        return VPy(("opaqueset",))

    def ev_GeneratorExp(self, node, env):
        return VPy(("generator",))

    def ev_ListComp(self, node, env):
        """[e for x in heap_list if c]: over-approximated by a fresh list whose length is bounded by the
        source's (element values are not constrained) - sound for proofs, useless for refutation."""
        if len(node.generators) != 1:
            self.oos(node, "nested list comprehension")
        src = self.lift(self.ev(node.generators[0].iter, env))
        if isinstance(src, VPy) and src.obj == ("emptylist",):
            return src
        if not isinstance(src, VRef):
            self.oos(node, "list comprehension over a non-heap iterable")
        self.ctx.assumptions_used.add("list comprehensions over heap lists are over-approximated (fresh list, length <= source length)")
        return self.heap.fresh_list_upto(self.heap.llen(src))

    def external_call(self, key, ext, node, env):
        """Call by an *assumed* contract (listed under assumptions)."""
        args = [self.lift(self.ev(a, env)) for a in node.args]
        kwargs = {k.arg: self.lift(self.ev(k.value, env)) for k in node.keywords}
        cenv = self.E.Env(parent=env)
        for i, a in enumerate(args):
            if i < len(ext.params):
                cenv.vars[ext.params[i]] = a
        for k, v in kwargs.items():
            cenv.vars[k] = v
        for pk in list(cenv.vars):
            # a caller variable that a parameter of the same name shadows stays reachable as caller_<name> (as for modular calls)
            cv = env.lookup(pk)
            if cv is not None:
                cenv.vars["caller_" + pk] = cv
        self.ctx.assumptions_used.add(f"assumed contract on external call `{key}` in {self.ctx.contract.name}: "
                                      f"returns {ext.returns}, ensures {ext.ensures}, may raise {sorted(ext.exsures)}"
                                      + (f" ({ext.note})" if ext.note else ""))
        sub = self.pure_eval()
        # the callee's `old` state (heap_unchanged() in its assumed clauses) is the state at this call, not at our entry
        sub.old_heap = dict(self.path.heap)
        sub.alloc_base = self.path.heap.get("$alloc")
        ca = self.site_asserts(key, node)
        if ca and not self.pure:
            for cl in ca:
                t = sub.truth(sub.ev(ast.parse(cl, mode="eval").body, cenv))
                self.ctx.oblige(self.path, "assert@callsite", f"{key}: {cl} @L{getattr(node, 'lineno', 0)}", t, node)
        outcomes = ["ok"] + sorted(ext.exsures)
        k = 0 if self.pure else self.path.choose(len(outcomes))
        out = outcomes[k]
        if getattr(ext, "modifies", None) or getattr(ext, "allocates", False):
            keep = self.heap.snapshot_locations(getattr(ext, "preserves", []), cenv)
            self.heap.havoc_frame(ext, cenv, sub)
            self.heap.restore_locations(keep)
            if keep:
                self.ctx.assumptions_used.add(f"external call `{key}` assumed not to touch the caller's fresh objects {ext.preserves}")
        if out != "ok":
            for cl in ext.exsures[out]:
                self.path.assume(sub.truth(sub.ev(ast.parse(cl, mode="eval").body, cenv)), check=False)
            self.path.assume(z3.BoolVal(True))
            raise self.E.Raised(out, node)
        def fresh_alloc(t):
            if t.name == "Tup":
                return VTuple([fresh_alloc(a) for a in t.args])
            if t.name in ("Ref", "ListRef"):
                return self.heap.fresh_object(t.args[0] or ("list" if t.name == "ListRef" else "OtherExpression"))
            return self.fresh_value(t, f"ext:{key}")

        if getattr(ext, "fresh", False) and ext.returns is not None and ext.returns.name in ("Ref", "ListRef", "Tup"):
            res = fresh_alloc(ext.returns)
        else:
            res = self.fresh_value(ext.returns, f"ext:{key}@L{getattr(node, 'lineno', 0)}") if ext.returns is not None else VNone()
        cenv.vars["result"] = res
        for cl in ext.ensures:
            self.path.assume(sub.truth(sub.ev(ast.parse(cl, mode="eval").body, cenv)), check=False)
        self.path.assume(z3.BoolVal(True))
        return res

    def ev_Call(self, node, env):
        f = node.func
        # super().__getitem__(i) etc. inside a list subclass (Scope): plain list operations on self
        if isinstance(f, ast.Attribute) and isinstance(f.value, ast.Call) and isinstance(f.value.func, ast.Name) \
                and f.value.func.id == "super" and not f.value.args:
            me = self.resolve_name("self", env, node)
            if isinstance(me, VRef) and me.cls in ("Scope", "list"):
                args = [self.ev(a, env) for a in node.args]
                if f.attr == "__getitem__":
                    return self.heap.subscript(me, args[0], node)
                if f.attr == "__delitem__":
                    self.heap.delitem(me, args[0], node, env)
                    return VNone()
                if f.attr == "__setitem__":
                    self.heap.setitem(me, args[0], args[1], node, env)
                    return VNone()
            self.oos(node, "super() call")
        exts = self.ctx.contract.externals
        if exts and not self.pure:
            key = ast.unparse(f)
            ordn = self.call_ordinals.get(id(node))
            if ordn is not None and f"{key}#{ordn[1]}" in exts:
                return self.external_call(key, exts[f"{key}#{ordn[1]}"], node, env)
            if key in exts:
                return self.external_call(key, exts[key], node, env)
        # special forms that must not evaluate all arguments eagerly
        if isinstance(f, ast.Name) and env.lookup(f.id) is None:
            if f.id == "implies" and self.pure:
                a = self.truth(self.ev(node.args[0], env))
                s = z3.simplify(a)
                if z3.is_false(s):
                    return VBool(z3.BoolVal(True))
                b = self.truth(self.ev(node.args[1], env))
                return VBool(z3.Implies(a, b))
            if f.id == "old" and self.pure:
                return self.eval_old(node.args[0], env)
            if f.id == "next":
                return self.call_next(node, env)
            if f.id in ("any", "all") and node.args and isinstance(node.args[0], ast.GeneratorExp):
                return self.call_anyall(f.id, node.args[0], env, node)
            if f.id == "cast":
                return self.ev(node.args[1], env)
            if f.id == "isinstance":
                return self.call_isinstance(node, env)
        fv = self.ev(f, env)
        args = []
        for a in node.args:
            if isinstance(a, ast.Starred):
                v = self.ev(a.value, env)
                if isinstance(v, VTuple):
                    args.extend(v.items)
                else:
                    self.oos(node, "star-args")
            else:
                args.append(self.ev(a, env))
        kwargs = {}
        for k in node.keywords:
            if k.arg is None:
                self.oos(node, "**kwargs")
            kwargs[k.arg] = self.ev(k.value, env)
        return self.call_value(fv, args, kwargs, node, env)

    def eval_old(self, expr, env):
        """old(e): e evaluated in the entry heap (parameters in post-state clauses already denote entry values)."""
        sub = self.pure_eval()
        sub.in_old = True
        sub.old_globals = getattr(self, "old_globals", None)
        saved = self.path.heap
        try:
            if self.old_heap is not None:
                self.path.heap = dict(self.old_heap)
            return sub.ev(expr, env)
        finally:
            self.path.heap = saved

    def call_isinstance(self, node, env):
        v = self.lift(self.ev(node.args[0], env))
        cnode = node.args[1]
        classes = cnode.elts if isinstance(cnode, ast.Tuple) else [cnode]
        names = []
        for c in classes:
            names.append(c.id if isinstance(c, ast.Name) else ast.unparse(c))
        if isinstance(v, VRef):
            return VBool(self.heap.isinstance(v, names))
        if isinstance(v, VOpaque):
            return VBool(z3.BoolVal(False))  # an opaque value stands for "anything else"
        shape = {
            VStr: {"str"} if not getattr(v, "is_bytes", False) else {"bytes"},
            VInt: {"int"},
            VBool: {"bool", "int"},
            VNone: set(),
            VTuple: {"tuple"},
            VSeq: {"list"},
            VStrJoin: {"list"},
            VRec: {getattr(v, "cls", "")},
        }.get(type(v))
        if shape is None:
            self.oos(node, f"isinstance on {type(v).__name__}")
        return VBool(z3.BoolVal(any(n in shape for n in names)))

    def comp_source(self, gen, env, node):
        """(length, elem(i) -> V, env binder) for a comprehension generator over a supported iterable."""
        it = self.lift(self.ev(gen.iter, env))
        return self.iter_source(it, node)

    def iter_source(self, it, node):
        """Return (length term, function index term -> V)."""
        if isinstance(it, VStr):
            return z3.Length(it.t), (lambda i: (VInt(z3.StrToCode(z3.SubString(it.t, i, 1))) if it.is_bytes else VStr(z3.SubString(it.t, i, 1), is_char=True)))
        if isinstance(it, VSeq):
            return z3.Length(it.t), (lambda i: self.E.wrap_kind(it.kind, it.t[i]))
        if isinstance(it, VArr):
            return it.n, (lambda i: self.E.wrap_kind(it.kind, it.arr[z3.simplify(it.off + i)]))
        if isinstance(it, VRef):
            return self.heap.iter_source(it, node)
        if isinstance(it, VPy) and isinstance(it.obj, tuple):
            tag = it.obj[0]
            if tag == "enumerate":
                n, el = self.iter_source(it.obj[1], node)
                start = it.obj[2]
                return n, (lambda i: VTuple([VInt(i + start.t), el(i)]))
            if tag == "reversed":
                n, el = self.iter_source(it.obj[1], node)
                return n, (lambda i: el(n - 1 - i))
            if tag == "range":
                lo, hi = it.obj[1], it.obj[2]
                return z3.If(hi.t > lo.t, hi.t - lo.t, I(0)), (lambda i: VInt(lo.t + i))
            if tag == "emptylist":
                return I(0), (lambda i: VNone())
        self.oos(node, f"iteration over {type(it).__name__}")

    def call_next(self, node, env):
        """next((e for x in xs if p), default): first match or default, as a first-index spec."""
        if not (node.args and isinstance(node.args[0], ast.GeneratorExp) and len(node.args) == 2):
            self.oos(node, "next() form")
        gen = node.args[0]
        if len(gen.generators) != 1:
            self.oos(node, "nested generator")
        g = gen.generators[0]
        default = self.ev(node.args[1], env)
        n, el = self.comp_source(g, env, node)
        k = self.path.fresh("first", z3.IntSort())
        j = self.path.fresh("j", z3.IntSort())

        def cond_at(i):
            e2 = self.E.Env(parent=env)
            self.bind_target(g.target, el(i), e2, node)
            sub = self.pure_eval()
            conds = [sub.truth(sub.ev(c, e2)) for c in g.ifs]
            return (z3.And(*conds) if conds else z3.BoolVal(True)), e2

        # found: 0 <= k < n, cond(k), forall j<k: not cond(j)
        ck, ek = cond_at(k)
        cj, _ = cond_at(j)
        found = z3.And(k >= 0, k < n, ck, z3.ForAll([j], z3.Implies(z3.And(j >= 0, j < k), z3.Not(cj))))
        none = z3.ForAll([j], z3.Implies(z3.And(j >= 0, j < n), z3.Not(cj)))
        if self.pure:
            self.oos(node, "next() in pure clause")
        c = self.path.choose(2)
        if c == 0:
            self.path.assume(found)
            self.path.__dict__.setdefault("quant_hints", []).append((j, cj))
            sub = self.pure_eval()
            return sub.ev(gen.elt, ek)
        self.path.assume(none)
        return default

    def call_anyall(self, which, gen, env, node):
        """any/all over a generator: a quantifier (nested generators give nested bound variables)."""
        bound = []
        rngs = []
        e2 = self.E.Env(parent=env)
        sub = self.pure_eval()
        for g in gen.generators:
            j = self.path.fresh("j", z3.IntSort())
            bound.append(j)
            it = g.iter
            if isinstance(it, ast.Call) and isinstance(it.func, ast.Name) and it.func.id == "range" and e2.lookup("range") is None:
                args = [sub.lift(sub.ev(a, e2)) for a in it.args]
                lo, hi = (VInt(I(0)), args[0]) if len(args) == 1 else (args[0], args[1])
                rngs.append(z3.And(j >= lo.t, j < hi.t))
                self.bind_target(g.target, VInt(j), e2, node)
            else:
                src = sub.lift(sub.ev(it, e2))
                n, el = self.iter_source(src, node)
                rngs.append(z3.And(j >= 0, j < n))
                self.bind_target(g.target, el(j), e2, node)
            for c in g.ifs:
                rngs.append(sub.truth(sub.ev(c, e2)))
        n_ax, n_pc = len(self.path.axioms), len(self.path.pc)
        rng = z3.And(*rngs)
        # the body is translated under its range (so that e.g. `xs[k]` with k in range(n) is known to be a
        # non-negative index and needs no Python negative-index normalisation)
        self.path.solver.push()
        try:
            if not _has_quant_term(rng):
                self.path.solver.add(rng)
            body = sub.truth(sub.ev(gen.elt, e2))
        finally:
            self.path.solver.pop()
        # definitional axioms instantiated while translating the body (characterisations of spec functions) mention the
        # bound variables: they hold for every value of them, so they are generalised (with the registered trigger) -
        # stated only for the arbitrary constant they would be useless inside the quantifier
        for fact in self.path.axioms[n_ax:]:
            used = [b for b in bound if _mentions(fact, b)]
            trig = self.path.triggers.get(fact.get_id())
            if used and trig is not None and not _has_ite(trig) and all(_mentions(trig, b) for b in used):
                try:
                    self.path.axioms.append(z3.ForAll(used, fact, patterns=[trig]))
                except z3.Z3Exception:
                    pass  # not usable as a pattern (contains ite / arithmetic at the top): the fact stays un-generalised
        if which == "any":
            return VBool(z3.Exists(bound, z3.And(rng, body)))
        return VBool(z3.ForAll(bound, z3.Implies(rng, body)))

    def pure_eval(self):
        sub = Evaluator(self.ctx, self.path, pure=True, fn_name=self.fn_name)
        sub.old_heap = self.old_heap
        sub.old_globals = getattr(self, "old_globals", None)
        sub.entry_env = self.entry_env
        sub.closure_fx = self.closure_fx
        sub.call_ordinals = self.call_ordinals
        return sub

    def call_value(self, fv, args, kwargs, node, env):
        if isinstance(fv, VClosure):
            return self.inline_function(fv.node, fv.env, args, kwargs, node, module=fv.module)
        if isinstance(fv, VBound):
            return self.call_method(fv.recv, fv.name, args, kwargs, node, env)
        if isinstance(fv, VPy):
            o = fv.obj
            if isinstance(o, Spec):
                return self.call_spec(o, args, node)
            if isinstance(o, tuple):
                tag = o[0]
                if tag == "builtin":
                    return self.call_builtin(o[1], args, kwargs, node, env)
                if tag == "exc":
                    return VPy(("excinst", o[1]))
                if tag == "func":
                    return self.call_repo_function(o[1], o[2], args, kwargs, node, env)
                if tag == "class":
                    return self.construct(o[1], o[2], args, kwargs, node, env)
                if tag == "extattr":
                    return self.call_external(o[1], o[2], args, kwargs, node)
                if tag == "ext":
                    return self.call_external(o[1], o[2], args, kwargs, node)
                if tag == "classattr":
                    return self.heap.call_classattr(o, args, kwargs, node, env)
        if isinstance(fv, VRef) and not args and (fv.cls == "weakref" or fv.cls is None and self.path.entails_quick(self.heap.tag_in(fv.t, "weakref"))):
            # calling a weak reference: its referent, or None once the referent is gone (field `target`, 0 = dead)
            return self.heap.getattr(VRef(fv.t, "weakref"), "target", node)
        self.oos(node, f"call of {fv}")

    def call_external(self, mod, name, args, kwargs, node):
        if mod == "weakref" and name == "ref" and args and isinstance(self.lift(args[0]), VRef):
            w = self.heap.alloc("weakref")
            self.heap.h["target"] = z3.Store(self.heap.h["target"], w.t, self.lift(args[0]).t)
            return w
        if mod == "re" and name == "compile":
            pat = self.lift(args[0])
            if isinstance(pat, VStr) and z3.is_string_value(pat.t):
                return VPy(self.E.RegexSpec(pat.t.as_string()), "regex")
        if mod == "typing" and name == "cast":
            return args[1]
        if name == "ContextVar":
            nm = self.lift(args[0])
            return VPy(("ctxvar", nm.t.as_string() if isinstance(nm, VStr) and z3.is_string_value(nm.t) else "ctx"))
        if mod == "math" and name == "isfinite":
            return VBool(self.path.fresh("isfinite", z3.BoolSort()))
        self.oos(node, f"external {mod}.{name}")

    def call_builtin(self, name, args, kwargs, node, env):
        args = [self.lift(a) for a in args]
        if name == "len":
            a = args[0]
            if isinstance(a, (VStr, VSeq)):
                return VInt(z3.Length(a.t))
            if isinstance(a, (VStrJoin, VArr)):
                return VInt(a.n)
            if isinstance(a, VTuple):
                return VInt(I(len(a.items)))
            if isinstance(a, VRef):
                return self.heap.len(a, node)
            if isinstance(a, VPy) and a.obj == ("emptylist",):
                return VInt(I(0))
        if name == "iff":
            return VBool(self.truth(args[0]) == self.truth(args[1]))
        if name == "ctx_value":
            key = self.lift(args[0]).t.as_string()
            return self.path.__dict__.setdefault("globals", {}).get(key, VNone())
        if name == "alloc_at_entry":
            return VInt(self.path.alloc0)
        if name == "heap_unchanged":
            old = self.old_heap or {}
            cur = self.path.heap
            # every location of every object that existed at entry is unchanged (fresh objects are free)
            # optional arguments relax it: field names that may change; "lists-grow": lists may be appended to (the old
            # elements stay where they were)
            relax = set()
            for a in args:
                if isinstance(a, VStr) and z3.is_string_value(a.t):
                    relax.add(a.t.as_string())
                else:
                    self.oos(node, "heap_unchanged() argument")
            r = z3.Const("r!hu", z3.IntSort())
            j = z3.Const("j!hu", z3.IntSort())
            eqs = []
            a0 = getattr(self, "alloc_base", None)
            a0 = self.path.alloc0 if a0 is None else a0
            for f in cur:
                if f in old and f != "$alloc" and not z3.eq(cur[f], old[f]) and f not in relax:
                    cf = cur[f]
                    if _has_ite(cf):
                        cf = self.heap.patternable(cf)  # a term with ite cannot serve as a pattern
                    if "lists-grow" in relax and f == "$len":
                        eqs.append(z3.ForAll([r], z3.Implies(z3.And(r >= 0, r < a0), cf[r] >= old[f][r]), patterns=[cf[r]]))
                    elif "lists-grow" in relax and f == "$elem":
                        eqs.append(z3.ForAll([r, j], z3.Implies(z3.And(r >= 0, r < a0, j >= 0, j < old["$len"][r]), cf[r][j] == old[f][r][j]),
                                             patterns=[cf[r][j]]))
                    else:
                        eqs.append(z3.ForAll([r], z3.Implies(z3.And(r >= 0, r < a0), cf[r] == old[f][r]), patterns=[cf[r]]))
            return VBool(z3.And(*eqs) if eqs else z3.BoolVal(True))
        if name == "global_map":
            gname = args[0].t.as_string()
            ecls = getattr(self.ctx.contract, "global_maps", {}).get(gname, "tuple")
            arr = self.global_map_array(gname)
            if getattr(self, "in_old", False):
                og = getattr(self, "old_globals", None) or {}
                arr = og.get(gname, self.path.__dict__["globals"]["map:" + gname + "@entry"])
            return self.heap.global_map_read(arr, args[1].t, ecls)
        if name == "heap_unchanged_except":
            # heap_unchanged_except(obj, "field"): the only location of a pre-existing object that may differ is obj.field
            obj, fld = args[0], args[1].t.as_string()
            old = self.old_heap or {}
            cur = self.path.heap
            r = z3.Const("r!hue", z3.IntSort())
            a0 = getattr(self, "alloc_base", None)
            a0 = self.path.alloc0 if a0 is None else a0
            eqs = []
            for f in cur:
                if f in old and f != "$alloc" and not z3.eq(cur[f], old[f]):
                    cf = self.heap.patternable(cur[f]) if _has_ite(cur[f]) else cur[f]
                    guard = z3.And(r >= 0, r < a0)
                    if f == fld and isinstance(obj, VRef):
                        guard = z3.And(guard, r != obj.t)
                    eqs.append(z3.ForAll([r], z3.Implies(guard, cf[r] == old[f][r]), patterns=[cf[r]]))
            return VBool(z3.And(*eqs) if eqs else z3.BoolVal(True))
        if name == "implies":
            return VBool(z3.Implies(self.truth(args[0]), self.truth(args[1])))
        if name == "str":
            return self.to_str(args[0], node)
        if name == "bool":
            return VBool(self.truth(args[0]))
        if name == "int":
            a = args[0]
            if isinstance(a, VInt):
                return a
            if isinstance(a, VBool):
                return VInt(z3.If(a.t, I(1), I(0)))
            if isinstance(a, VStr):
                # int(text) on a digit string (callers guarantee the grammar); leading zeros ok
                self.ctx.assumptions_used.add("int(str) is applied to decimal digit strings only (tree-sitter integer_expression)")
                return VInt(z3.StrToInt(a.t))
        if name == "enumerate":
            start = args[1] if len(args) > 1 else kwargs.get("start", VInt(I(0)))
            return VPy(("enumerate", args[0], self.lift(start)))
        if name == "reversed":
            return VPy(("reversed", args[0]))
        if name == "range":
            if len(args) == 1:
                return VPy(("range", VInt(I(0)), args[0]))
            if len(args) == 2:
                return VPy(("range", args[0], args[1]))
        if name in ("tuple", "list"):
            if not args:
                return VTuple([]) if name == "tuple" else VPy(("emptylist",))
            a = args[0]
            if isinstance(a, VTuple):
                return a if name == "tuple" else self.list_from_items(a.items, node) if a.items else VPy(("emptylist",))
            if isinstance(a, (VSeq, VStrJoin, VArr)):
                return a
            if isinstance(a, VRef):
                return self.heap.list_copy(a, node, as_tuple=(name == "tuple"))
            if isinstance(a, VPy) and a.obj == ("emptylist",):
                return a
        if name == "print":
            return self.model_print(args, kwargs, node)
        if name == "min" and len(args) == 2 and all(isinstance(a, VInt) for a in args):
            return VInt(z3.If(args[0].t <= args[1].t, args[0].t, args[1].t))
        if name == "max" and len(args) == 2 and all(isinstance(a, VInt) for a in args):
            return VInt(z3.If(args[0].t >= args[1].t, args[0].t, args[1].t))
        if name == "id":
            if isinstance(args[0], VRef):
                return VInt(args[0].t)
        if name == "set":
            if not args:
                return VPy(("idset", ()))
        if name in ("getattr", "hasattr") and isinstance(args[0], VObj):
            key = args[1]
            if isinstance(key, VStr) and z3.is_string_value(key.t):
                k = key.t.as_string()
                if name == "hasattr":
                    return VBool(z3.BoolVal(k in args[0].fields))
                if k in args[0].fields:
                    return args[0].fields[k]
                if len(args) > 2:
                    return args[2]
        if name in ("getattr", "hasattr"):
            return self.heap.call_getattr(name, args, node)
        if name == "repr":
            return VStr(self.path.fresh("repr", z3.StringSort()))
        if name == "type":
            return VPy(("typeof", args[0]))
        self.oos(node, f"builtin {name}({', '.join(type(a).__name__ for a in args)})")

    def model_print(self, args, kwargs, node):
        """print(x) appends str(x) + "\\n" to the ghost stdout."""
        out = self.path.__dict__.setdefault("stdout", S(""))
        file = kwargs.get("file")
        if file is not None:
            return VNone()
        pieces = [self.to_str(a, node).t for a in args]
        text = pieces[0] if len(pieces) == 1 else z3.Concat(*[x for p in pieces for x in (p, S(" "))][:-1]) if pieces else S("")
        end = self.lift(kwargs["end"]).t if "end" in kwargs else S("\n")
        self.path.stdout = z3.Concat(out, text, end)
        return VNone()

    # -- methods on values
    def global_map_array(self, gname):
        """Current content of a module-level registry (arbitrary at function entry: no registry invariant is assumed)."""
        self.heap.init_path()
        g = self.path.__dict__.setdefault("globals", {})
        key = "map:" + gname
        if key not in g:
            g[key] = self.path.fresh("G." + gname + "@0", z3.ArraySort(z3.IntSort(), z3.IntSort()))
            g[key + "@entry"] = g[key]
        return g[key]

    def call_method(self, recv, name, args, kwargs, node, env):
        recv = self.lift(recv)
        args = [self.lift(a) for a in args]
        if isinstance(recv, VStr):
            return self.str_method(recv, name, args, node)
        if isinstance(recv, VPy) and isinstance(recv.obj, self.E.RegexSpec):
            if name in ("match", "search", "fullmatch"):
                s = args[0]
                return VMatch(recv.obj.matches(s.t, name))
        if isinstance(recv, VPy) and recv.obj == ("emptylist",):
            if name == "append" or name == "extend":
                self.oos(node, "mutation of an untyped empty list (add a locals hint)")
            if name == "copy":
                return recv
        if isinstance(recv, (VSeq, VStrJoin)):
            return self.list_method(recv, name, args, node)
        if isinstance(recv, VPy) and isinstance(recv.obj, tuple) and recv.obj and recv.obj[0] == "ctxvar":
            g = self.path.__dict__.setdefault("globals", {})
            key = recv.obj[1]
            if name == "get":
                return g.get(key, VNone())
            if name == "set":
                tok = VPy(("token", key, g.get(key, VNone())))
                g[key] = args[0]
                return tok
            if name == "reset":
                tok = args[0]
                if isinstance(tok, VPy) and isinstance(tok.obj, tuple) and tok.obj[0] == "token" and tok.obj[1] == key:
                    g[key] = tok.obj[2]
                    return VNone()
            self.oos(node, f"ContextVar.{name}")
        if isinstance(recv, VPy) and isinstance(recv.obj, tuple) and recv.obj and recv.obj[0] == "intmap":
            _, gname, ecls = recv.obj
            arr = self.global_map_array(gname)
            if name == "get" and len(args) in (1, 2) and isinstance(args[0], VInt) and (len(args) == 1 or isinstance(args[1], VNone)):
                return self.heap.global_map_read(arr, args[0].t, ecls)
            if name == "pop" and len(args) == 2 and isinstance(args[0], VInt) and isinstance(args[1], VNone):
                v = self.heap.global_map_read(arr, args[0].t, ecls)
                if self.pure:
                    self.oos(node, "pop in a specification clause")
                self.path.__dict__["globals"]["map:" + gname] = z3.Store(arr, args[0].t, I(0))
                return v
            self.oos(node, f"registry method {name}")
        if isinstance(recv, VOpaque) and name in self.ctx.contract.opaque_methods:
            rt = self.ctx.contract.opaque_methods[name]
            sorts = {"Bool": z3.BoolSort(), "Str": z3.StringSort(), "Int": z3.IntSort(), "Opaque": z3.IntSort()}
            argt = [recv.t] + [self.E.unwrap(a) for a in args if isinstance(a, (VStr, VInt, VOpaque))]
            f = z3.Function("meth_" + name, *[t.sort() for t in argt], sorts[rt.name])
            r = f(*argt)
            return {"Bool": VBool, "Str": VStr, "Int": VInt, "Opaque": VOpaque}[rt.name](r)
        if isinstance(recv, VRef):
            return self.heap.call_method(recv, name, args, kwargs, node, env)
        if isinstance(recv, VPy) and isinstance(recv.obj, tuple) and recv.obj and recv.obj[0] == "idset":
            return self.heap.idset_method(recv, name, args, node)
        if isinstance(recv, VPy) and isinstance(recv.obj, tuple) and recv.obj and recv.obj[0] == "args":
            pass
        self.oos(node, f"method {name} on {type(recv).__name__}")

    def list_method(self, recv, name, args, node):
        self.oos(node, f"list method {name} used as expression (only as statement)")

    def str_method(self, s: VStr, name, args, node):
        t = s.t
        if name in ("startswith", "endswith"):
            a = args[0]
            fn = (lambda x: z3.PrefixOf(x, t)) if name == "startswith" else (lambda x: z3.SuffixOf(x, t))
            if isinstance(a, VTuple):
                return VBool(z3.Or(*[fn(self.lift(x).t) for x in a.items]))
            return VBool(fn(a.t))
        if name in ("decode", "encode"):
            self.ctx.assumptions_used.add("bytes<->str conversion modelled as identity on code points < 256 (ASCII/latin-1 view); offsets are byte offsets")
            return VStr(t, is_bytes=(name == "encode"))
        if name == "find":
            sub = args[0].t
            if z3.is_string_value(sub) and len(sub.as_string()) == 1:
                # single-character needle: the result is characterised pointwise (range, hit, minimality, absence)
                n = z3.Length(t)
                lo = args[1].t if len(args) > 1 else I(0)
                hi = args[2].t if len(args) > 2 else n
                lo_n = z3.If(lo < 0, I(0), lo)
                hi_n = z3.If(hi > n, n, hi)
                r = self.path.fresh("find", z3.IntSort())
                k = z3.Const("k!find", z3.IntSort())
                at = lambda i: z3.SubString(t, i, 1)
                self.path.add_axiom(z3.Or(r == -1, z3.And(r >= lo_n, r < hi_n, at(r) == sub)))
                self.path.add_axiom(z3.ForAll([k], z3.Implies(z3.And(k >= lo_n, k < z3.If(r == -1, hi_n, r)), at(k) != sub), patterns=[at(k)]))
                return VInt(r)
            if len(args) == 1:
                return VInt(z3.IndexOf(t, sub, I(0)))
            start = args[1].t
            if len(args) == 2:
                return VInt(z3.IndexOf(t, sub, start))
            end = args[2].t
            # s.find(sub, start, end): first occurrence fully inside [start, end)
            pre = z3.SubString(t, 0, self.norm_index(end, z3.Length(t)))
            return VInt(z3.IndexOf(pre, sub, start))
        if name == "rfind":
            sub = args[0].t
            if len(args) == 1:
                return VInt(z3.LastIndexOf(t, sub))
            start = args[1].t
            end = args[2].t if len(args) > 2 else z3.Length(t)
            win = z3.SubString(t, start, end - start)
            r = z3.LastIndexOf(win, sub)
            return VInt(z3.If(r < 0, I(-1), r + start))
        if name == "count":
            sub = args[0]
            if not (z3.is_string_value(sub.t) and len(sub.t.as_string()) == 1):
                self.oos(node, "count of non-single-char")
            win = t
            if len(args) == 3:
                win = z3.SubString(t, args[1].t, args[2].t - args[1].t)
            elif len(args) != 1:
                self.oos(node, "count arity")
            cnt = z3.Function("count_" + str(ord(sub.t.as_string())), z3.StringSort(), z3.IntSort())
            c = cnt(win)
            i1 = z3.IndexOf(win, sub.t, I(0))
            self.path.add_axiom(c >= 0)
            self.path.add_axiom((c >= 1) == (i1 >= 0))
            self.path.add_axiom((c >= 2) == z3.And(i1 >= 0, z3.IndexOf(win, sub.t, i1 + 1) >= 0))
            return VInt(c)
        if name == "rsplit":
            if len(args) == 2 and self.const_int(args[1], node) == 1:
                return VPy(("rsplit1", s, args[0]))
        if name == "rstrip":
            if len(args) == 1 and z3.is_string_value(args[0].t) and len(args[0].t.as_string()) == 1:
                ch = args[0].t
                f = z3.Function("rstrip_" + str(ord(ch.as_string())), z3.StringSort(), z3.StringSort())
                r = f(t)
                self.path.add_axiom(z3.PrefixOf(r, t))
                self.path.add_axiom(z3.Not(z3.SuffixOf(ch, r)))
                self.path.add_axiom(z3.InRe(z3.SubString(t, z3.Length(r), z3.Length(t) - z3.Length(r)), z3.Star(z3.Re(ch))))
                return VStr(r)
        if name == "strip" and not args:
            # str.strip(): an uninterpreted function (the same symbol as specs.attrpath.str_strip), with the facts every
            # use here needs: the result is a piece of the argument, and stripping nothing from the empty string
            f = z3.Function("py_strip", z3.StringSort(), z3.StringSort())
            r = f(t)
            self.path.add_axiom(z3.Contains(t, r))
            self.path.add_axiom(z3.Implies(t == S(""), r == S("")))
            self.ctx.assumptions_used.add("str.strip() is an uninterpreted function (its result is a substring of the argument); the "
                                          "specification uses the same function, so only agreement is proved, not what strip() removes")
            return VStr(r)
        if name == "lstrip" and not args:
            self.oos(node, "lstrip() needs a contract-level abstraction")
        if name == "join":
            a = args[0]
            if isinstance(a, VStrJoin) and z3.is_string_value(t) and t.as_string() == "":
                return VStr(a.joined)
            if isinstance(a, VPy) and a.obj == ("generator",):
                return VStr(self.path.fresh("joined", z3.StringSort()))
            if isinstance(a, VPy) and a.obj == ("emptylist",):
                return VStr(S(""))
            if isinstance(a, VSeq) and a.kind == "str":
                return self.seq_join(s, a, node)
        if name == "isspace":
            ws = z3.Union(*[z3.Re(c) for c in WS_CHARS])
            self.ctx.assumptions_used.add("str.isspace() restricted to ASCII whitespace")
            return VBool(z3.InRe(t, z3.Plus(ws)))
        if name == "format":
            return VStr(self.path.fresh("fmt", z3.StringSort()))
        self.oos(node, f"str method {name}")

    def seq_join(self, sep: VStr, a: VSeq, node):
        """sep.join(seq): uninterpreted fold with unfolding for Unit/Concat structure."""
        if not z3.is_string_value(sep.t):
            self.oos(node, "join with symbolic separator")
        f = z3.Function("join_" + "_".join(str(ord(c)) for c in sep.t.as_string()), a.t.sort(), z3.StringSort())
        r = f(a.t)
        self._join_axioms(f, sep.t, a.t)
        return VStr(r)

    def _join_axioms(self, f, sep, seq):
        key = ("join", f.name(), seq.get_id())
        if key in self.path.unfolded:
            return
        self.path.unfolded.add(key)
        p = self.path
        p.add_axiom(z3.Implies(z3.Length(seq) == 0, f(seq) == S("")))
        p.add_axiom(z3.Implies(z3.Length(seq) == 1, f(seq) == seq[0]))
        parts = self.E.flatten_concat(seq)
        if len(parts) >= 2:
            last = parts[-1]
            prefix = parts[0] if len(parts) == 2 else z3.Concat(*parts[:-1])
            self._join_axioms(f, sep, prefix)
            if z3.is_app(last) and last.decl().kind() == z3.Z3_OP_SEQ_UNIT:
                x = last.arg(0)
                p.add_axiom(f(seq) == z3.If(z3.Length(prefix) == 0, x, z3.Concat(f(prefix), sep, x)))

    # -- spec calls
    def call_spec(self, spec: Spec, args, node):
        args = [self.lift(a) for a in args]
        if spec.kind == "z3":
            return spec.z3fn(self, *args)
        if spec.kind == "view":
            return self.ctx.fold_apply(self.path, spec, args[0])
        if spec.kind == "pure":
            return self.call_spec_pure(spec, args)
        if spec.kind == "fold":
            return self.call_spec_pure(spec, args)
        self.oos(node, f"spec kind {spec.kind}")

    def call_spec_pure(self, spec: Spec, args):
        sub = Evaluator(self.ctx, self.path, pure=True, fn_name="spec:" + spec.name)
        env = self.E.Env(module=None)
        env.py_globals = spec.globals  # type: ignore[attr-defined]
        for p, a in zip(spec.params, args):
            env.vars[p] = a
        body = strip_docstring(spec.node.body)
        return sub.merge_block(body, env)

    def merge_block(self, stmts, env) -> V:
        """Pure evaluation of a loop-free statement list with if-then-else merging."""
        for i, st in enumerate(stmts):
            if isinstance(st, ast.Return):
                return self.ev(st.value, env) if st.value is not None else VNone()
            if isinstance(st, ast.Assign):
                v = self.ev(st.value, env)
                for tgt in st.targets:
                    self.bind_target(tgt, v, env, st)
                continue
            if isinstance(st, ast.If):
                c = self.truth(self.ev(st.test, env))
                rest = stmts[i + 1:]
                s = z3.simplify(c)
                if z3.is_true(s):
                    return self.merge_block(list(st.body) + rest, env)
                if z3.is_false(s):
                    return self.merge_block(list(st.orelse) + rest, env)
                e1 = self.E.Env(parent=None, module=env.module)
                e1.vars = dict(env.vars)
                e1.parent = env.parent
                if hasattr(env, "py_globals"):
                    e1.py_globals = env.py_globals
                e2 = self.E.Env(parent=None, module=env.module)
                e2.vars = dict(env.vars)
                e2.parent = env.parent
                if hasattr(env, "py_globals"):
                    e2.py_globals = env.py_globals
                a = self.merge_block(list(st.body) + rest, e1)
                b = self.merge_block(list(st.orelse) + rest, e2)
                return self.ite(c, a, b)
            if isinstance(st, ast.Expr) and isinstance(st.value, ast.Constant):
                continue
            if isinstance(st, ast.Pass):
                continue
            self.oos(st, f"statement {type(st).__name__} in pure function")
        return VNone()

    # ------------------------------------------------------------------ binding
    def bind_target(self, tgt, value, env, node=None):
        if isinstance(tgt, ast.Name):
            env.assign(tgt.id, value)
            return
        if isinstance(tgt, (ast.Tuple, ast.List)):
            value = self.lift(value)
            if isinstance(value, VTuple) and len(value.items) == len(tgt.elts):
                for t, v in zip(tgt.elts, value.items):
                    self.bind_target(t, v, env, node)
                return
            if isinstance(value, VRef) and len(tgt.elts) <= 3 and (value.cls == "tuple" or value.cls is None and self.path.entails_quick(self.heap.tag_in(value.t, "tuple"))):
                for k, t in enumerate(tgt.elts):
                    self.bind_target(t, self.heap.getattr(VRef(value.t, "tuple"), f"t{k}", node), env, node)
                return
            self.oos(node, "tuple unpacking of non-tuple")
        if isinstance(tgt, ast.Attribute):
            base = self.ev(tgt.value, env)
            if isinstance(base, VRef):
                # call_asserts keyed "<target text> =" (e.g. "binding.value ="): clauses over the caller's variables that must
                # hold where this field is written; `stored` names the value being written
                clauses = self.ctx.contract.call_asserts.get(ast.unparse(tgt) + " =", []) if getattr(self.ctx, "contract", None) else []
                if clauses and not self.pure:
                    sub = self.pure_eval()
                    aenv = self.E.Env(parent=env)
                    aenv.vars["stored"] = value
                    for cl in clauses:
                        t = sub.truth(sub.ev(ast.parse(cl, mode="eval").body, aenv))
                        self.ctx.oblige(self.path, "assert@callsite", f"{ast.unparse(tgt)} = ...: {cl} @L{getattr(node, 'lineno', 0)}", t, node)
                self.heap.setattr(base, tgt.attr, value, node)
                return
        if isinstance(tgt, ast.Subscript):
            base = self.ev(tgt.value, env)
            if isinstance(base, VRef):
                idx = self.ev(tgt.slice, env)
                self.heap.setitem(base, idx, value, node, env)
                return
            if isinstance(base, VPy) and isinstance(base.obj, tuple) and base.obj and base.obj[0] == "intmap":
                k = self.lift(self.ev(tgt.slice, env))
                if isinstance(k, VInt):
                    arr = self.global_map_array(base.obj[1])
                    self.path.__dict__["globals"]["map:" + base.obj[1]] = z3.Store(arr, k.t, self.heap.as_ref(self.lift(value), node).t)
                    return
            if isinstance(base, VPy) and isinstance(base.obj, tuple) and base.obj and base.obj[0] == "dictobj":
                k = self.lift(self.ev(tgt.slice, env))
                if isinstance(k, VStr) and z3.is_string_value(k.t):
                    base.obj[1][k.t.as_string()] = value
                    return
        self.oos(node, f"assignment target {ast.unparse(tgt)}")

    # repo calls / statements are in stmt.py (mixed in below)


from .stmt import StmtMixin  # noqa: E402

for _k, _v in StmtMixin.__dict__.items():
    if not _k.startswith("__"):
        setattr(Evaluator, _k, _v)
