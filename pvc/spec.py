"""Specification functions: executable Python (used natively by replay/oracles) that the engine
translates to SMT.

kinds
  pure  - a loop-free Python function (if/elif/else, return, local assignments); translated by
          symbolic evaluation with if-then-else merging.  Natively it is just called.
  fold  - a left fold of a `pure` step function over the characters of a string, i.e. a
          deterministic automaton with output.  Encoded as one uninterpreted function per state
          component; the defining equations  f("") = init,  f(w ++ c) = step(f(w), c)  are
          *instantiated* (never quantified) for the terms that occur in a VC.
  z3    - a primitive given twice: natively and as a z3 term builder (trusted pair; the two
          definitions are cross-checked on samples by bin/selftest).
"""
from __future__ import annotations

import ast
import inspect
import textwrap
from dataclasses import dataclass, field
from typing import Any, Callable

SPECS: dict[str, "Spec"] = {}


@dataclass
class Spec:
    name: str
    kind: str
    py: Callable
    node: Any = None  # ast.FunctionDef for pure / fold step
    globals: dict = field(default_factory=dict)
    z3fn: Callable | None = None
    # fold
    init: tuple = ()
    sorts: tuple = ()
    fold: "Spec | None" = None  # for views: the fold they project
    comp: int = 0
    params: list = field(default_factory=list)


def _fn_ast(fn):
    src = textwrap.dedent(inspect.getsource(fn))
    tree = ast.parse(src)
    node = tree.body[0]
    assert isinstance(node, ast.FunctionDef)
    return node


def pure(fn):
    node = _fn_ast(fn)
    SPECS[fn.__name__] = Spec(
        name=fn.__name__, kind="pure", py=fn, node=node, globals=fn.__globals__,
        params=[a.arg for a in node.args.args],
    )
    return fn


def z3spec(z3fn):
    def deco(fn):
        SPECS[fn.__name__] = Spec(name=fn.__name__, kind="z3", py=fn, z3fn=z3fn, globals=fn.__globals__)
        return fn

    return deco


def fold(*, init: tuple, sorts: tuple, views: dict):
    """Declare `step(state..., c) -> state...` as the step of a fold; `views` maps view names to
    component indices, each view becoming a spec function String -> component."""

    def deco(step):
        node = _fn_ast(step)
        fspec = Spec(
            name=step.__name__, kind="fold", py=step, node=node, globals=step.__globals__,
            init=init, sorts=sorts, params=[a.arg for a in node.args.args],
        )
        SPECS[step.__name__] = fspec

        def run(w):
            st = tuple(init)
            for c in w:
                st = step(*st, c)
                if not isinstance(st, tuple):
                    st = (st,)
            return st

        fspec.run = run  # type: ignore[attr-defined]
        for vname, k in views.items():
            def view(w, _k=k):
                return run(w)[_k]

            view.__name__ = vname
            SPECS[vname] = Spec(name=vname, kind="view", py=view, fold=fspec, comp=k, globals=step.__globals__)
            step.__globals__[vname] = view
        return step

    return deco


def implies(a, b):
    return (not a) or b


# ---------------------------------------------------------------------------------------------
# Lemmas about folds.  An *absorbing* predicate P over the automaton state satisfies
#     P(state) ==> P(step(state, c))   for every character c          (one-step closure)
# The one-step closure is discharged by the solver as a named obligation on every run
# (`spec-lemma` obligations); the engine then uses the instances
#     0 <= e1 <= e2 <= len(x)  and  P(f(x[:e1]))  ==>  P(f(x[:e2]))
# which follow from it by induction on e2 - e1.  That induction principle is part of the
# engine's trusted meta-theory (listed under assumptions in every evidence file).
LEMMAS: list = []


@dataclass
class AbsorbingLemma:
    fold: str
    pred: str
    name: str = ""


def absorbing(step, pred: str, name: str = ""):
    LEMMAS.append(AbsorbingLemma(fold=step.__name__, pred=pred, name=name or f"{step.__name__}:absorbing[{pred}]"))


def uninterp(name: str, arg_kinds: list, res_kind: str, native=None, spec_name=None):
    """Uninterpreted specification function (deterministic, otherwise unconstrained): stands for a
    behaviour that is specified elsewhere (e.g. "the text the library edit returns")."""
    import z3

    from . import types as _ty
    from .values import VBool, VInt, VStr

    def srt(k):
        return _ty.kind_sort(k)

    f = z3.Function(name, *[srt(k) for k in arg_kinds], srt(res_kind))

    def z3fn(ev, *args):
        from .engine import unwrap, wrap_kind

        t = f(*[unwrap(a) for a in args]) if arg_kinds else f()
        return wrap_kind(res_kind, t)

    def py(*args):
        if native is None:
            raise NotImplementedError(f"uninterpreted spec function {name} has no native reading")
        return native(*args)

    py.__name__ = spec_name or name
    SPECS[spec_name or name] = Spec(name=spec_name or name, kind="z3", py=py, z3fn=z3fn, globals={})
    return py
