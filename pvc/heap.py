"""Symbolic heap of the pvc engine: references, per-field arrays, heap lists, allocation, frames.

  refs          z3 Int; 0 is None; sentinels (linebreak, empty_line, comma) are the fixed refs 1..3
  tag(ref)      immutable uninterpreted function giving the class id
  fields        one z3 Array(Int -> sort) per field name (specs/heap_schema.py)
  lists         heap objects with `$len` : Array(Int, Int) and `$elem` : Array(Int, Array(Int, Int))
  allocation    `$alloc` : Int; every reference read from the heap is < $alloc (instantiated at reads)
  `==` on refs  uninterpreted equivalence pyeq with  a is b  =>  a == b   (identity never inferred from ==)
  frames        every write is checked against the contract's `modifies` (or the object is fresh)
"""
from __future__ import annotations

import ast

import z3

from . import types as ty
from .source import OutOfSubset, load_module, strip_docstring
from .values import (V, VBool, VBound, VClosure, VInt, VMatch, VNone, VObj, VOpaque, VPy, VRec, VRef, VSeq, VStr,
                     VStrJoin, VTuple)

I = z3.IntVal

TAG = z3.Function("tag", z3.IntSort(), z3.IntSort())
PYEQ = z3.Function("pyeq", z3.IntSort(), z3.IntSort(), z3.BoolSort())
IDOF = z3.Function("id_of", z3.IntSort(), z3.IntSort())


def schema():
    from specs import heap_schema as S

    return S


def field_sort(kind):
    if kind == "ref" or kind == "int":
        return z3.IntSort()
    if kind == "str":
        return z3.StringSort()
    if kind == "bool":
        return z3.BoolSort()
    if kind.startswith("seq:"):
        return z3.SeqSort(ty.kind_sort(kind[4:]))
    raise KeyError(kind)


ELEM_SORT = z3.ArraySort(z3.IntSort(), z3.IntSort())


class HeapOps:
    def __init__(self, ev):
        self.ev = ev
        self.path = ev.path
        self.ctx = ev.ctx
        self.S = schema()

    # ------------------------------------------------------------------ basics
    def _no(self, node, what):
        raise OutOfSubset(f"{self.ev.fn_name}:{getattr(node, 'lineno', '?')}", "heap: " + what)

    @property
    def h(self):
        return self.path.heap

    def init_path(self):
        p = self.path
        if p.heap:
            return
        for f, kind in self.S.FIELDS.items():
            p.heap[f] = z3.Const(f"H.{f}@0", z3.ArraySort(z3.IntSort(), field_sort(kind)))
        p.heap["$len"] = z3.Const("H.len@0", z3.ArraySort(z3.IntSort(), z3.IntSort()))
        p.heap["$elem"] = z3.Const("H.elem@0", z3.ArraySort(z3.IntSort(), ELEM_SORT))
        alloc = z3.Const("alloc@0", z3.IntSort())
        p.heap["$alloc"] = alloc
        p.assume(alloc > 16, check=False)
        p.__dict__["alloc0"] = alloc
        p.__dict__["globals"] = {}
        for name, r in (("linebreak", 1), ("empty_line", 2), ("comma", 3)):
            p.add_axiom(TAG(I(r)) == self.S.CLASSES["sentinel"])
        p.add_axiom(TAG(I(0)) == self.S.CLASSES["NoneType"])
        if getattr(self.ctx.contract, "entry_closure", False):
            # closed entry heap (assumption, listed in the evidence): objects that exist at entry only refer to objects that exist at entry
            r = z3.Const("r!ecl", z3.IntSort())
            j = z3.Const("j!ecl", z3.IntSort())
            for f, kind in self.S.FIELDS.items():
                if kind == "ref":
                    a = p.heap[f]
                    p.add_axiom(z3.ForAll([r], z3.Implies(z3.And(r >= 0, r < alloc), z3.And(a[r] >= 0, a[r] < alloc)), patterns=[a[r]]))
            E, L = p.heap["$elem"], p.heap["$len"]
            p.add_axiom(z3.ForAll([r, j], z3.Implies(z3.And(r >= 0, r < alloc, j >= 0, j < L[r]), z3.And(E[r][j] >= 0, E[r][j] < alloc)),
                                  patterns=[E[r][j]]))

    def assume_wellformed_entry(self, env):
        pass

    def tag_in(self, ref_t, cls):
        ids = self.S.class_ids(cls)
        if not ids:
            self._no(None, f"unknown class {cls}")
        return z3.Or(*[TAG(ref_t) == I(i) for i in ids])

    def fresh_ref(self, base, cls=None, maybe_none=False):
        p = self.path
        self.init_path()
        r = p.fresh(base, z3.IntSort())
        lo = r >= 0 if maybe_none else r > 3 if cls not in ("sentinel",) else r > 0
        p.assume(z3.And(lo, r < self.h["$alloc"]), check=False)
        if cls and cls != "object":
            t = self.tag_in(r, cls)
            p.assume(z3.Implies(r != 0, t) if maybe_none else t, check=False)
            if cls in ("list", "Scope"):
                p.assume(self.h["$len"][r] >= 0, check=False)
        return VRef(r, cls)

    def typed_read(self, ref_t, field, val_t):
        """Assumed type invariants of dataclass fields + heap closure, instantiated at the read."""
        p = self.path
        kind = self.S.FIELDS[field]
        if kind != "ref":
            return
        p.assume(z3.And(val_t >= 0, val_t < self.h["$alloc"]), check=False, trigger=val_t)
        if field in self.S.LIST_FIELDS:
            cls = self.S.LIST_FIELDS[field]
            p.assume(z3.And(val_t > 3, self.tag_in(val_t, cls), self.h["$len"][val_t] >= 0), check=False, trigger=val_t)
        elif field in self.S.OBJECT_FIELDS:
            p.assume(z3.And(val_t > 3, self.tag_in(val_t, self.S.OBJECT_FIELDS[field])), check=False, trigger=val_t)

    def is_list_tag(self, t):
        return self.tag_in(t, "list")

    def truth(self, v: VRef):
        return z3.If(self.is_list_tag(v.t), self.h["$len"][v.t] > 0, v.t != 0)

    def pyeq(self, a: VRef, b: VRef):
        # sentinels / None / lists compare by identity (no __eq__ override that matters here)
        self.path.add_axiom(z3.Implies(a.t == b.t, PYEQ(a.t, b.t)))
        self.path.add_axiom(PYEQ(a.t, b.t) == PYEQ(b.t, a.t))
        for x, y in ((a, b), (b, a)):
            self.path.add_axiom(z3.Implies(z3.And(x.t >= 0, x.t <= 3), PYEQ(x.t, y.t) == (x.t == y.t)))
        return PYEQ(a.t, b.t)

    def isinstance(self, v: VRef, names):
        terms = []
        for n in names:
            n = n.split(".")[-1]
            if n in ("str", "int", "bool", "float", "dict", "tuple", "bytes"):
                if n == "dict":
                    terms.append(self.tag_in(v.t, "dict"))
                elif n == "tuple":
                    terms.append(self.tag_in(v.t, "tuple"))
                else:
                    terms.append(z3.BoolVal(False))
                continue
            if n not in self.S.CLASSES and n not in self.S.SUBCLASSES:
                self._no(None, f"isinstance against unknown class {n}")
            terms.append(self.tag_in(v.t, n))
        return z3.And(v.t != 0, z3.Or(*terms))

    # ------------------------------------------------------------------ fields
    def getattr(self, base: VRef, attr: str, node=None):
        self.init_path()
        if attr in self.S.FIELDS:
            if not self.ev.pure:
                self.ctx.oblige(self.path, "attr-of-none", f"L{getattr(node, 'lineno', 0)}:.{attr}", base.t != 0, node)
                self.path.assume(base.t != 0, check=False)
            t = self.h[attr][base.t]
            kind = self.S.FIELDS[attr]
            self.typed_read(base.t, attr, t)
            if kind == "ref":
                cls = self.S.LIST_FIELDS.get(attr) or self.S.OBJECT_FIELDS.get(attr)
                return VRef(t, cls)
            if kind == "str":
                return VStr(t)
            if kind == "bool":
                return VBool(t)
            if kind == "int":
                return VInt(t)
            if kind.startswith("seq:"):
                return VSeq(t, kind[4:])
        return VBound(base, attr)

    def snapshot_locations(self, locs, env):
        out = []
        for r, f in self.eval_locations(locs, env, None):
            if f == "$list":
                out.append((r, "$len", self.h["$len"][r]))
                out.append((r, "$elem", self.h["$elem"][r]))
            elif f in self.S.FIELDS:
                out.append((r, f, self.h[f][r]))
        return out

    def restore_locations(self, keep):
        for r, f, v in keep:
            self.h[f] = z3.Store(self.h[f], r, v)

    def fresh_object(self, cls):
        """A newly allocated object with unconstrained content (result of an external call)."""
        r = self.alloc(cls)
        if cls in ("list", "Scope"):
            n = self.path.fresh("fresh.len", z3.IntSort())
            self.path.assume(n >= 0, check=False)
            self.h["$len"] = z3.Store(self.h["$len"], r.t, n)
        return r

    def check_write(self, ref_t, field, node):
        """Frame obligation: the written location is in `modifies` or the object is fresh."""
        if self.ev.pure:
            return
        # loop frames: inside a loop body every write must lie in the loop's own `modifies` (that is what was havocked
        # at the loop head) or hit an object allocated after the loop head
        for k, lf in enumerate(getattr(self.ev, "loop_frames", [])):
            if lf["any"]:
                continue
            ok = [ref_t >= lf["alloc"]]
            if lf["entry_lists"] and field == "$list":
                ok.append(z3.And(ref_t >= 0, ref_t < self.path.alloc0))
            for (r, f) in lf["locs"]:
                if f == field or f == "*":
                    ok.append(ref_t == r)
            # deferred: it only matters on paths that come back to the loop head (a write followed by return / break /
            # raise never meets the havocked state again); stmt.py releases the pending obligations at the back edge
            before = len(self.ctx.obligations)
            self.ctx.oblige(self.path, "frame", f"L{getattr(node, 'lineno', 0)}:write .{field} inside loop {lf['tag']}", z3.Or(*ok), node)
            lf.setdefault("pending", []).extend(self.ctx.obligations[before:])
            del self.ctx.obligations[before:]
        if "*" in (self.ctx.contract.modifies or []):
            return
        allowed = [ref_t >= self.path.alloc0]
        for (r, f) in self.frame_locations():
            if f == field or f == "*":
                allowed.append(ref_t == r)
        lab = f"L{getattr(node, 'lineno', 0)}:write .{field}"
        self.ctx.oblige(self.path, "frame", lab, z3.Or(*allowed), node)

    def frame_locations(self):
        cache = self.path.__dict__.get("_frame")
        if cache is not None:
            return cache
        locs = self.eval_locations(self.ctx.contract.modifies, self.ev.entry_env, self.ev.old_heap)
        self.path.__dict__["_frame"] = locs
        return locs

    def eval_locations(self, modifies, env, heap):
        """['x.f', 'x.values[]', 'x.*'] -> [(ref term, field | '$list' | '*')] evaluated in `heap`."""
        locs = []
        if not modifies:
            return locs
        saved = self.path.heap
        sub = self.ev.pure_eval()
        try:
            if heap is not None:
                self.path.heap = dict(heap)
            for m in modifies:
                m = m.strip()
                if m.endswith("[]"):
                    v = sub.ev(ast.parse(m[:-2], mode="eval").body, env)
                    if isinstance(v, VRef):
                        locs.append((v.t, "$list"))
                    continue
                base, _, field = m.rpartition(".")
                v = sub.ev(ast.parse(base, mode="eval").body, env)
                if isinstance(v, VRef):
                    locs.append((v.t, field))
        finally:
            self.path.heap = saved
        return locs

    def setattr(self, base: VRef, attr, value, node=None):
        self.init_path()
        if attr not in self.S.FIELDS:
            self._no(node, f"assignment to unknown field {attr}")
        if not self.ev.pure:
            self.ctx.oblige(self.path, "attr-of-none", f"L{getattr(node, 'lineno', 0)}:.{attr}=", base.t != 0, node)
            self.path.assume(base.t != 0, check=False)
        self.check_write(base.t, attr, node)
        self.h[attr] = z3.Store(self.h[attr], base.t, self.to_field(attr, value, node))

    def to_field(self, attr, value, node=None):
        kind = self.S.FIELDS[attr]
        value = self.ev.lift(value)
        if kind == "ref":
            return self.as_ref(value, node).t
        if kind == "str" and isinstance(value, VStr):
            return value.t
        if kind == "bool" and isinstance(value, VBool):
            return value.t
        if kind == "int" and isinstance(value, VInt):
            return value.t
        if kind.startswith("seq:") and isinstance(value, VSeq):
            return value.t
        if kind.startswith("seq:") and isinstance(value, VTuple):
            return self.ev.list_from_items(value.items, node).t if value.items else z3.Empty(field_sort(kind))
        self._no(node, f"value of shape {type(value).__name__} stored in field {attr}:{kind}")

    def as_ref(self, value, node=None) -> VRef:
        """Values stored into ref-sorted places: None, refs, or boxed python values."""
        if isinstance(value, VRef):
            return value
        if isinstance(value, VNone):
            return VRef(I(0), "NoneType")
        if isinstance(value, VPy) and value.obj == ("emptylist",):
            return self.new_list([])
        if isinstance(value, VTuple) and 1 <= len(value.items) <= 3 and all(isinstance(self.ev.lift(x), (VRef, VNone)) for x in value.items):
            # a tuple of references stored in a list / dict: boxed as a heap object with fields t0..t2
            r = self.alloc("tuple")
            for k, x in enumerate(value.items):
                self.h[f"t{k}"] = z3.Store(self.h[f"t{k}"], r.t, self.as_ref(self.ev.lift(x), node).t)
            return r
        if isinstance(value, (VStr, VInt, VBool, VSeq, VTuple, VOpaque, VStrJoin, VObj, VRec)) or \
                (isinstance(value, VPy) and not (isinstance(value.obj, tuple) and value.obj[:1] == ("emptylist",))):
            # boxed python value: a fresh opaque heap object (its payload is not modelled)
            r = self.alloc("pyvalue")
            return r
        self._no(node, f"cannot store {type(value).__name__} as a reference")

    # ------------------------------------------------------------------ allocation
    def alloc(self, cls):
        self.init_path()
        r = self.h["$alloc"]
        self.h["$alloc"] = r + 1
        if cls in self.S.CLASSES:
            self.path.assume(TAG(r) == I(self.S.CLASSES[cls]), check=False)
        else:
            self.path.assume(self.tag_in(r, cls), check=False)  # abstract class: some concrete subclass
        return VRef(r, cls)

    def new_list(self, items, cls="list"):
        r = self.alloc(cls)
        arr = z3.K(z3.IntSort(), I(0))
        for i, it in enumerate(items):
            arr = z3.Store(arr, I(i), self.as_ref(self.ev.lift(it)).t)
        self.h["$elem"] = z3.Store(self.h["$elem"], r.t, arr)
        self.h["$len"] = z3.Store(self.h["$len"], r.t, I(len(items)))
        return r

    # ------------------------------------------------------------------ lists
    def llen(self, l):
        return self.h["$len"][l.t]

    def len(self, l, node=None):
        return VInt(self.llen(l))

    def elem_read(self, l, idx_t):
        t = self.h["$elem"][l.t][idx_t]
        self.path.assume(z3.And(t >= 0, t < self.h["$alloc"]), check=False, trigger=t)
        return VRef(t, getattr(l, "elem", None))

    def subscript(self, base: VRef, idx, node=None):
        idx = self.ev.lift(idx)
        if isinstance(idx, VStr):
            return self.dict_get(base, idx, node)
        if not isinstance(idx, VInt):
            self._no(node, "list index of non-int")
        s = z3.simplify(idx.t)
        if z3.is_int_value(s) and 0 <= s.as_long() <= 2 and (base.cls == "tuple" or base.cls is None and self.path.entails_quick(self.tag_in(base.t, "tuple"))):
            return self.getattr(VRef(base.t, "tuple"), f"t{s.as_long()}", node)
        n = self.llen(base)
        if self.ev.pure and not (z3.is_int_value(s) and s.as_long() < 0):
            return self.elem_read(base, s)
        if z3.is_int_value(s) and s.as_long() < 0:
            pos, ok = n + s, n >= -s.as_long()
        else:
            pos, ok = z3.If(idx.t < 0, idx.t + n, idx.t), z3.And(idx.t < n, idx.t >= -n)
            if z3.is_int_value(s) or self.path.entails_quick(idx.t >= 0):
                pos, ok = idx.t, idx.t < n
        if not self.ev.pure:
            self.ctx.oblige(self.path, "index-bounds", f"L{getattr(node, 'lineno', 0)}:{ast.unparse(node) if node is not None else ''}", ok, node)
            self.path.assume(ok, check=False)
        return self.elem_read(base, pos)

    def write_list(self, l, new_elems, new_len, node, what):
        self.check_write(l.t, "$list", node)
        self.h["$elem"] = z3.Store(self.h["$elem"], l.t, new_elems)
        self.h["$len"] = z3.Store(self.h["$len"], l.t, new_len)

    def append(self, l, item, node):
        n = self.llen(l)
        arr = self.h["$elem"][l.t]
        self.write_list(l, z3.Store(arr, n, self.as_ref(self.ev.lift(item), node).t), n + 1, node, "append")

    def fresh_elems(self, base):
        return self.path.fresh(base, ELEM_SORT)

    def delete_at(self, l, idx_t, node):
        """del l[i]: elements after i shift left by one."""
        n = self.llen(l)
        old = self.patternable(self.h["$elem"][l.t])
        new = self.fresh_elems("del")
        j = z3.Const("j!del", z3.IntSort())
        self.path.assume(z3.ForAll([j], z3.And(z3.Implies(z3.And(j >= 0, j < idx_t), new[j] == old[j]),
                                               z3.Implies(j >= idx_t, new[j] == old[j + 1])), patterns=[new[j]]), check=False)
        self.write_list(l, new, n - 1, node, "del")

    def delitem(self, base: VRef, idx, node, env):
        idx = self.ev.lift(idx)
        if isinstance(idx, VStr):
            return self.dunder(base, "__delitem__", [idx], {}, node, env)
        if not isinstance(idx, VInt):
            self._no(node, "del with non-int index")
        # static dispatch: a str key reaches the mapping dunder, an int reaches list deletion
        n = self.llen(base)
        ok = z3.And(idx.t >= 0, idx.t < n)
        self.ctx.oblige(self.path, "index-bounds", f"L{getattr(node, 'lineno', 0)}:del [{ast.unparse(node.targets[0].slice) if hasattr(node, 'targets') else ''}]", ok, node)
        self.path.assume(ok, check=False)
        self.delete_at(base, idx.t, node)

    def setitem(self, base: VRef, idx, value, node, env):
        idx = self.ev.lift(idx)
        if isinstance(idx, VStr):
            return self.dunder(base, "__setitem__", [idx, value], {}, node, env)
        if isinstance(idx, VInt):
            n = self.llen(base)
            ok = z3.And(idx.t >= 0, idx.t < n)
            self.ctx.oblige(self.path, "index-bounds", f"L{getattr(node, 'lineno', 0)}:[..]=", ok, node)
            self.path.assume(ok, check=False)
            arr = self.h["$elem"][base.t]
            self.write_list(base, z3.Store(arr, idx.t, self.as_ref(self.ev.lift(value), node).t), n, node, "setitem")
            return
        self._no(node, "item assignment")

    def list_contains(self, l, item, node=None):
        item = self.as_ref(self.ev.lift(item), node)
        j = self.path.fresh("j", z3.IntSort())
        x = self.h["$elem"][l.t][j]
        self.path.add_axiom(z3.Implies(x == item.t, PYEQ(x, item.t)))
        return z3.Exists([j], z3.And(j >= 0, j < self.llen(l), PYEQ(self.h["$elem"][l.t][j], item.t)))

    def list_copy(self, l, node=None, as_tuple=False):
        r = self.alloc("list")
        self.h["$elem"] = z3.Store(self.h["$elem"], r.t, self.h["$elem"][l.t])
        self.h["$len"] = z3.Store(self.h["$len"], r.t, self.llen(l))
        r.elem = getattr(l, "elem", None)
        return r

    def list_concat(self, a, b):
        r = self.alloc("list")
        na, nb = self.llen(a), self.llen(b)
        new = self.fresh_elems("cat")
        j = z3.Const("j!cat", z3.IntSort())
        ea, eb = self.h["$elem"][a.t], self.h["$elem"][b.t]
        self.path.assume(z3.ForAll([j], z3.And(z3.Implies(z3.And(j >= 0, j < na), new[j] == ea[j]),
                                               z3.Implies(z3.And(j >= na, j < na + nb), new[j] == eb[j - na])), patterns=[new[j]]), check=False)
        self.h["$elem"] = z3.Store(self.h["$elem"], r.t, new)
        self.h["$len"] = z3.Store(self.h["$len"], r.t, na + nb)
        return r

    def list_slice(self, base, lo, hi, node=None):
        n = self.llen(base)
        a = self.ev.norm_index(lo.t, n) if lo is not None else I(0)
        b = self.ev.norm_index(hi.t, n) if hi is not None else n
        r = self.alloc("list")
        new = self.fresh_elems("slice")
        j = z3.Const("j!sl", z3.IntSort())
        old = self.h["$elem"][base.t]
        ln = z3.If(b >= a, b - a, I(0))
        self.path.assume(z3.ForAll([j], z3.Implies(z3.And(j >= 0, j < ln), new[j] == old[j + a]), patterns=[new[j]]), check=False)
        self.h["$elem"] = z3.Store(self.h["$elem"], r.t, new)
        self.h["$len"] = z3.Store(self.h["$len"], r.t, ln)
        r.elem = getattr(base, "elem", None)
        return r

    def iter_source(self, it: VRef, node):
        # the list is re-read at every step (Python semantics); the element array is read lazily
        return self.llen(it), (lambda i: self.elem_read(it, i))

    # ------------------------------------------------------------------ methods
    def call_method(self, recv: VRef, name, args, kwargs, node, env):
        if name in ("append", "extend", "remove", "pop", "insert", "copy", "index", "clear") and (
                recv.cls in ("list", "Scope") or recv.cls is None and self.path.entails_quick(self.is_list_tag(recv.t))):
            self.site_asserts(node, env, args)
            return self.list_method(recv, name, args, node)
        if name == "get" and recv.cls in ("dict", "ScopeLayer", None):
            return self.dict_get(recv, self.ev.lift(args[0]), node, default=args[1] if len(args) > 1 else VNone(), soft=True)
        if name.startswith("__") or True:
            return self.dunder(recv, name, args, kwargs, node, env)

    def global_map_read(self, arr, key_t, ecls):
        t = arr[key_t]
        self.path.assume(z3.And(t >= 0, t < self.h["$alloc"], z3.Implies(t != 0, self.tag_in(t, ecls))), check=False)
        return VRef(t, ecls)

    def patternable(self, term):
        """A constant equal to `term` (terms containing ite cannot be used in E-matching patterns)."""
        c = self.path.fresh("arr", term.sort())
        self.path.assume(c == term, check=False)
        return c

    def site_asserts(self, node, env, args=()):
        """call_asserts for a list-method call (`xs.remove(y)`): clauses over the caller's variables and arg0, arg1."""
        if self.ev.pure or node is None or not isinstance(node, ast.Call):
            return
        key = ast.unparse(node.func)
        clauses = self.ev.site_asserts(key, node)
        if not clauses:
            return
        sub = self.ev.pure_eval()
        aenv = self.ev.E.Env(parent=env)
        for i, a in enumerate(args):
            aenv.vars[f"arg{i}"] = self.ev.lift(a)
        for cl in clauses:
            t = sub.truth(sub.ev(ast.parse(cl, mode="eval").body, aenv))
            self.ctx.oblige(self.path, "assert@callsite", f"{key}: {cl} @L{getattr(node, 'lineno', 0)}", t, node)

    def list_method(self, l, name, args, node):
        args = [self.ev.lift(a) for a in args]
        if name == "append":
            self.append(l, args[0], node)
            return VNone()
        if name == "copy":
            return self.list_copy(l, node)
        if name == "extend":
            other = args[0]
            if isinstance(other, VPy) and other.obj == ("emptylist",):
                return VNone()
            if isinstance(other, VPy) and other.obj == ("generator",):
                # extend(generator): unknown suffix appended, prefix kept
                n = self.llen(l)
                old = self.h["$elem"][l.t]
                new = self.fresh_elems("extg")
                m = self.path.fresh("extg.n", z3.IntSort())
                j = z3.Const("j!extg", z3.IntSort())
                self.path.assume(z3.And(m >= 0, z3.ForAll([j], z3.Implies(z3.And(j >= 0, j < n), new[j] == old[j]), patterns=[new[j]])), check=False)
                self.write_list(l, new, n + m, node, "extend")
                return VNone()
            if isinstance(other, VRef):
                n, m = self.llen(l), self.llen(other)
                old, oth = self.h["$elem"][l.t], self.h["$elem"][other.t]
                new = self.fresh_elems("ext")
                j = z3.Const("j!ext", z3.IntSort())
                self.path.assume(z3.ForAll([j], z3.And(z3.Implies(z3.And(j >= 0, j < n), new[j] == old[j]),
                                                       z3.Implies(z3.And(j >= n, j < n + m), new[j] == oth[j - n])), patterns=[new[j]]), check=False)
                self.write_list(l, new, n + m, node, "extend")
                return VNone()
        if name == "pop":
            n = self.llen(l)
            if not args:
                ok = n > 0
                self.ctx.oblige(self.path, "index-bounds", f"L{getattr(node, 'lineno', 0)}:pop()", ok, node)
                self.path.assume(ok, check=False)
                v = self.elem_read(l, n - 1)
                self.write_list(l, self.h["$elem"][l.t], n - 1, node, "pop")
                return v
            k = self.ev.const_int(args[0], node)
            if k == 0:
                ok = n > 0
                self.ctx.oblige(self.path, "index-bounds", f"L{getattr(node, 'lineno', 0)}:pop(0)", ok, node)
                self.path.assume(ok, check=False)
                v = self.elem_read(l, I(0))
                self.delete_at(l, I(0), node)
                return v
        if name == "remove":
            # first element that is == to the argument; ValueError if there is none
            item = self.as_ref(args[0], node)
            k = self.path.fresh("rm", z3.IntSort())
            j = z3.Const("j!rm", z3.IntSort())
            e = self.patternable(self.h["$elem"][l.t])
            self.path.add_axiom(z3.Implies(e[k] == item.t, PYEQ(e[k], item.t)))
            found = z3.And(k >= 0, k < self.llen(l), PYEQ(e[k], item.t),
                           z3.ForAll([j], z3.Implies(z3.And(j >= 0, j < k), z3.Not(PYEQ(e[j], item.t))), patterns=[e[j]]))
            none = z3.ForAll([j], z3.Implies(z3.And(j >= 0, j < self.llen(l)), z3.Not(PYEQ(e[j], item.t))), patterns=[e[j]])
            # identity implies equality: instantiate for the argument itself
            c = self.path.choose(2)
            if c == 0:
                self.path.assume(found)
                self.delete_at(l, k, node)
                self.path.__dict__["last_removed_index"] = k
                return VNone()
            self.path.assume(none)
            raise self.ev.E.Raised("ValueError", node)
        self._no(node, f"list method {name}")

    def dunder(self, recv: VRef, name, args, kwargs, node, env):
        """Method call on a heap object: resolved by the static class of the receiver."""
        cls = recv.cls
        if cls is None:
            self._no(node, f"method {name} on a reference of unknown class")
        target = self.find_method(cls, name)
        if target is None:
            self._no(node, f"no method {cls}.{name} found in the repo")
        mod, fn = target
        return self.ev.call_repo_function(mod, fn, args, kwargs, node, env, recv=recv)

    CLASS_FILES = {
        "AttributeSet": "nix_manipulator/expressions/set.py", "Scope": "nix_manipulator/expressions/scope.py",
        "LetExpression": "nix_manipulator/expressions/let.py", "NixSourceCode": "nix_manipulator/expressions/source_code.py",
        "Binding": "nix_manipulator/expressions/binding.py", "Identifier": "nix_manipulator/expressions/identifier.py",
        "NixExpression": "nix_manipulator/expressions/expression.py", "NixPath": "nix_manipulator/expressions/path.py",
        "Import": "nix_manipulator/expressions/import_expression.py", "RawExpression": "nix_manipulator/expressions/raw.py",
        "ScopeState": "nix_manipulator/expressions/scope.py", "_AttrpathEntry": "nix_manipulator/expressions/set.py",
        "Comment": "nix_manipulator/expressions/comment.py", "MultilineComment": "nix_manipulator/expressions/comment.py",
    }

    def find_method(self, cls, name):
        rel = self.CLASS_FILES.get(cls)
        if rel is None:
            return None
        mod = load_module(rel)
        q = f"{cls}.{name}"
        if q in mod.defs:
            return mod, mod.defs[q]
        cnode = mod.defs.get(cls)
        if cnode is not None:
            for b in cnode.bases:
                bn = ast.unparse(b).split("[")[0]
                if bn in ("TypedExpression",):
                    bn = "NixExpression"
                if bn in self.CLASS_FILES and bn != cls:
                    r = self.find_method(bn, name)
                    if r:
                        return r
        return None

    def new_dict(self, d, node=None):
        obj = self.alloc("ScopeLayer")
        for k, v in d.items():
            self.h[k] = z3.Store(self.h[k], obj.t, self.to_field(k, v, node))
        return obj

    def fresh_list_upto(self, bound):
        r = self.alloc("list")
        n = self.path.fresh("comp.len", z3.IntSort())
        self.path.assume(z3.And(n >= 0, n <= bound), check=False)
        arr = self.fresh_elems("comp")
        self.h["$elem"] = z3.Store(self.h["$elem"], r.t, arr)
        self.h["$len"] = z3.Store(self.h["$len"], r.t, n)
        return r

    # ------------------------------------------------------------------ dict-like objects with constant keys
    def dict_get(self, base, key, node, default=None, soft=False):
        if not (isinstance(key, VStr) and z3.is_string_value(key.t)):
            if recv_is := isinstance(base, VRef) and base.cls not in (None, "dict", "ScopeLayer"):
                return self.dunder(base, "__getitem__", [key], {}, node, None)
            self._no(node, "dict access with non-constant key")
        k = key.t.as_string()
        if base.cls not in ("dict", "ScopeLayer", None) and not soft:
            return self.dunder(base, "__getitem__", [key], {}, node, None)
        if k not in self.S.FIELDS:
            self._no(node, f"dict key {k} not in schema")
        return self.getattr(base, k, node)

    # ------------------------------------------------------------------ construction
    def class_fields(self, mod, cls_node):
        """[(name, default ast | None)] of a dataclass incl. inherited fields (base first)."""
        out = []
        for b in cls_node.bases:
            bn = ast.unparse(b)
            if bn in ("TypedExpression", "NixExpression"):
                m2 = load_module("nix_manipulator/expressions/expression.py")
                out.extend(self.class_fields(m2, m2.defs["NixExpression"]))
            elif bn in mod.defs and isinstance(mod.defs[bn], ast.ClassDef):
                out.extend(self.class_fields(mod, mod.defs[bn]))
            elif bn == "Comment" or bn == "Primitive":
                rel = self.CLASS_FILES.get(bn, "nix_manipulator/expressions/primitive.py")
                m2 = load_module(rel)
                out.extend(self.class_fields(m2, m2.defs[bn]))
        for st in cls_node.body:
            if isinstance(st, ast.AnnAssign) and isinstance(st.target, ast.Name):
                ann = ast.unparse(st.annotation)
                if ann.startswith("ClassVar"):
                    continue
                out = [x for x in out if x[0] != st.target.id]
                out.append((st.target.id, st.value))
        return out

    def default_value(self, name, dflt, node):
        """Value of a dataclass default expression."""
        if dflt is None:
            self._no(node, f"missing constructor argument {name}")
        if isinstance(dflt, ast.Call) and ast.unparse(dflt.func) == "field":
            kw = {k.arg: k.value for k in dflt.keywords}
            if "default_factory" in kw:
                fac = ast.unparse(kw["default_factory"])
                if fac == "list":
                    return self.new_list([])
                if fac == "Scope":
                    return self.new_list([], cls="Scope")
                if fac == "ScopeState":
                    return self.construct_by_name("ScopeState", {}, node)
                self._no(node, f"default factory {fac}")
            if "default" in kw:
                return self.ev.pure_eval().ev(kw["default"], self.ev.E.Env(module=None))
            self._no(node, "field() without default")
        return self.ev.pure_eval().ev(dflt, self.ev.E.Env(module=None))

    def construct_by_name(self, cls, kwargs, node):
        rel = self.CLASS_FILES.get(cls)
        mod = load_module(rel)
        return self.construct(mod, mod.defs[cls], [], kwargs, node, None)

    def construct(self, mod, cls_node, args, kwargs, node, env):
        name = cls_node.name
        if name not in self.S.CLASSES:
            self._no(node, f"construction of unmodelled class {name}")
        if name == "Scope":
            items = self.ev.lift(args[0]) if args else None
            r = self.new_list([], cls="Scope")
            if isinstance(items, VRef):
                self.h["$elem"] = z3.Store(self.h["$elem"], r.t, self.h["$elem"][items.t])
                self.h["$len"] = z3.Store(self.h["$len"], r.t, self.llen(items))
            elif items is not None and not (isinstance(items, VTuple) and not items.items) and not (isinstance(items, VPy) and items.obj == ("emptylist",)):
                self._no(node, "Scope(...) from unsupported iterable")
            owner = kwargs.get("owner")
            self.h["owner"] = z3.Store(self.h["owner"], r.t, self.as_ref(self.ev.lift(owner)).t if owner is not None else I(0))
            return r
        fields = self.class_fields(mod, cls_node)
        is_dc = any("dataclass" in ast.unparse(d) for d in cls_node.decorator_list)
        if not is_dc:
            init = mod.defs.get(f"{name}.__init__")
            if init is None:
                self._no(node, f"constructor of non-dataclass {name} without __init__")
            obj = self.alloc(name)
            self.ev.inline_function(init, self.ev.E.Env(module=mod), [obj] + list(args), kwargs, node, module=mod)
            return obj
        kw_only = any("kw_only=True" in ast.unparse(d) for d in cls_node.decorator_list)
        obj = self.alloc(name)
        pos = [f for f, _ in fields if f not in ("before", "after", "scope", "scope_state")]
        given = dict(kwargs)
        for i, a in enumerate(args):
            if i >= len(pos):
                self._no(node, "too many positional arguments")
            given[pos[i]] = a
        for fname, dflt in fields:
            if fname not in self.S.FIELDS:
                if fname in given:
                    self._no(node, f"field {fname} of {name} not in the heap schema")
                continue
            v = given[fname] if fname in given else self.default_value(fname, dflt, node)
            self.h[fname] = z3.Store(self.h[fname], obj.t, self.to_field(fname, v, node))
        if name == "_AttrpathEntry" and "segments" in given:
            seg = self.ev.lift(given["segments"])
            if isinstance(seg, VTuple) and seg.items:
                self.h["seg0"] = z3.Store(self.h["seg0"], obj.t, self.ev.lift(seg.items[0]).t)
            elif isinstance(seg, VSeq):
                self.h["seg0"] = z3.Store(self.h["seg0"], obj.t, seg.t[0])
        # NixExpression.__post_init__: scope.owner = self for Scope instances (the only case modelled)
        if name in self.S.EXPRESSIONS and "scope" in dict(fields):
            sc = self.h["scope"][obj.t]
            self.h["owner"] = z3.Store(self.h["owner"], sc, obj.t) if "scope" not in given else self.h["owner"]
            if "scope" in given:
                self.ctx.assumptions_used.add("NixExpression.__post_init__ with an explicit scope argument: owner re-pointing not modelled")
        self.ctx.assumptions_used.add(f"dataclass construction of {name}: __post_init__ coercions (dict -> AttributeSet, scope normalisation) are not modelled; arguments are assumed already normalised")
        return obj

    # ------------------------------------------------------------------ modular calls: frames
    def havoc_frame(self, c, cenv, sub):
        if not getattr(c, "modifies", None) and not getattr(c, "allocates", False):
            return
        self.init_path()
        tagname = f"hv:{c.name}"
        if "*" in (c.modifies or []):
            if not self.ev.pure:
                self.check_write(I(0), "*", None) if "*" not in (self.ctx.contract.modifies or []) else None
            for f in list(self.h):
                if f == "$alloc":
                    continue
                self.h[f] = self.path.fresh(tagname + "." + f, self.h[f].sort())
            na = self.path.fresh(tagname + ".alloc", z3.IntSort())
            self.path.assume(na >= self.h["$alloc"], check=False)
            self.h["$alloc"] = na
            return
        locs = self.eval_locations(c.modifies, cenv, None)
        for r, f in locs:
            if not self.ev.pure:
                # the callee's frame must lie within ours
                self.check_write(r, f, None)
            if f == "$list":
                self.h["$elem"] = z3.Store(self.h["$elem"], r, self.path.fresh(tagname + ".elem", ELEM_SORT))
                nl = self.path.fresh(tagname + ".len", z3.IntSort())
                self.path.assume(nl >= 0, check=False)
                self.h["$len"] = z3.Store(self.h["$len"], r, nl)
            elif f in self.S.FIELDS:
                self.h[f] = z3.Store(self.h[f], r, self.path.fresh(tagname + "." + f, field_sort(self.S.FIELDS[f])))
        if getattr(c, "allocates", True):
            na = self.path.fresh(tagname + ".alloc", z3.IntSort())
            self.path.assume(na >= self.h["$alloc"], check=False)
            self.h["$alloc"] = na
        self.closure_of_havocked(locs)

    def loop_frame(self, lc, env, tag):
        """Descriptor of what a loop may write, evaluated at the loop head (before the havoc)."""
        self.init_path()
        mods = list(lc.modifies or [])
        plain = [m for m in mods if m not in ("*", "<entry-lists>[]")]
        return dict(tag=tag, any="*" in mods, entry_lists="<entry-lists>[]" in mods, locs=self.eval_locations(plain, env, None),
                    alloc=self.h["$alloc"])

    def havoc_for_loop(self, lc, env, tag):
        if not self.path.heap:
            return
        if not lc.modifies:
            return
        if "*" in lc.modifies:
            for f in list(self.h):
                if f != "$alloc":
                    self.h[f] = self.path.fresh(f"loop{tag}." + f, self.h[f].sort())
            na = self.path.fresh(f"loop{tag}.alloc", z3.IntSort())
            self.path.assume(na >= self.h["$alloc"], check=False)
            self.h["$alloc"] = na
            return
        if "<entry-lists>[]" in lc.modifies:
            # the loop only changes the content of lists that already existed when the function was entered:
            # every field, and every list allocated in this call (local lists), is untouched
            E0, L0 = self.h["$elem"], self.h["$len"]
            E1 = self.path.fresh(f"loop{tag}.elem", E0.sort())
            L1 = self.path.fresh(f"loop{tag}.len", L0.sort())
            l = z3.Const("l!lfr", z3.IntSort())
            a0 = self.path.alloc0
            self.path.add_axiom(z3.ForAll([l], z3.Implies(l >= a0, E1[l] == E0[l]), patterns=[E1[l]]))
            self.path.add_axiom(z3.ForAll([l], z3.And(z3.Implies(l >= a0, L1[l] == L0[l]), L1[l] >= 0), patterns=[L1[l]]))
            self.h["$elem"], self.h["$len"] = E1, L1
            j = z3.Const("j!lfr", z3.IntSort())
            self.path.add_axiom(z3.ForAll([l, j], z3.Implies(z3.And(j >= 0, j < L1[l]), z3.And(E1[l][j] >= 0, E1[l][j] < self.h["$alloc"])),
                                          patterns=[E1[l][j]]))
            rest = [m for m in lc.modifies if m != "<entry-lists>[]"]
            if not rest:
                return
            lc = type(lc)(invariant=lc.invariant, modifies=rest, decreases=getattr(lc, "decreases", None)) if False else lc
        locs = self.eval_locations([m for m in lc.modifies if m != "<entry-lists>[]"], env, None)
        for r, f in locs:
            if f == "$list":
                self.h["$elem"] = z3.Store(self.h["$elem"], r, self.path.fresh(f"loop{tag}.elem", ELEM_SORT))
                nl = self.path.fresh(f"loop{tag}.len", z3.IntSort())
                self.path.assume(nl >= 0, check=False)
                self.h["$len"] = z3.Store(self.h["$len"], r, nl)
            elif f in self.S.FIELDS:
                self.h[f] = z3.Store(self.h[f], r, self.path.fresh(f"loop{tag}.{f}", field_sort(self.S.FIELDS[f])))
        na = self.path.fresh(f"loop{tag}.alloc", z3.IntSort())
        self.path.assume(na >= self.h["$alloc"], check=False)
        self.h["$alloc"] = na
        self.closure_of_havocked(locs)

    def closure_of_havocked(self, locs):
        """Heap closure for lists whose content was havocked: whatever they hold now was allocated before now."""
        j = z3.Const("j!hcl", z3.IntSort())
        for r, f in locs:
            if f == "$list":
                E, n = self.h["$elem"][r], self.h["$len"][r]
                self.path.add_axiom(z3.ForAll([j], z3.Implies(z3.And(j >= 0, j < n), z3.And(E[j] >= 0, E[j] < self.h["$alloc"])), patterns=[E[j]]))

    def check_frame_at_exit(self, contract, penv, fn, exceptional=None):
        pass

    # ------------------------------------------------------------------ misc
    def call_getattr(self, name, args, node):
        obj = args[0]
        key = self.ev.lift(args[1])
        if isinstance(obj, VRef) and isinstance(key, VStr) and z3.is_string_value(key.t):
            k = key.t.as_string()
            owners = self.S.FIELD_OWNERS.get(k)
            if k in self.S.FIELDS and owners is not None:
                has = z3.And(obj.t != 0, z3.Or(*[TAG(obj.t) == I(self.S.CLASSES[c]) for c in owners]))
                if name == "hasattr":
                    return VBool(has)
                saved_pure = self.ev.pure
                self.ev.pure = True  # a guarded read: no attr-of-none obligation
                try:
                    val = self.getattr(obj, k, node)
                finally:
                    self.ev.pure = saved_pure
                if len(args) < 3:
                    if not self.ev.pure:
                        self.ctx.oblige(self.path, "attr-of-none", f"L{getattr(node, 'lineno', 0)}:getattr {k}", has, node)
                    return val
                return self.ev.ite(has, val, self.ev.lift(args[2]))
        self._no(node, f"{name}() form")

    def exec_with(self, st, env):
        exts = self.ctx.contract.externals
        if len(st.items) == 1 and isinstance(st.items[0].context_expr, ast.Call):
            ce = st.items[0].context_expr
            fv = None
            try:
                fv = self.ev.ev(ce.func, env)
            except OutOfSubset:
                fv = None
            if isinstance(fv, VPy) and isinstance(fv.obj, tuple) and fv.obj[0] == "func" and \
                    any(ast.unparse(d).endswith("contextmanager") for d in fv.obj[2].decorator_list) and ast.unparse(ce.func) not in exts:
                # generator-based context manager of the repo: inline it, the with-body runs at its `yield`
                mod, fn = fv.obj[1], fv.obj[2]
                args = [self.ev.ev(a, env) for a in ce.args]
                kwargs = {k.arg: self.ev.ev(k.value, env) for k in ce.keywords}
                cenv = self.ev.E.Env(module=mod)
                self.ev.bind_params(fn, args, kwargs, cenv, st)
                prev = getattr(self.ev, "_yield_hook", None)
                self.ev._yield_hook = lambda: self.ev.exec_block(st.body, env)
                try:
                    self.ev.exec_block(strip_docstring(fn.body), cenv)
                finally:
                    self.ev._yield_hook = prev
                return
        for it in st.items:
            ce = it.context_expr
            key = ast.unparse(ce.func) if isinstance(ce, ast.Call) else None
            if key is None or key not in exts:
                self._no(st, f"with statement over {ast.unparse(ce)[:40]}")
            self.ev.ev(ce, env)
            self.ctx.assumptions_used.add(f"context manager `{key}` assumed to be a set/reset pair around its body (no effect on the modelled state)")
        self.ev.exec_block(st.body, env)

    def idset_contains(self, container, item):
        members = container.obj[1]
        item = self.ev.lift(item)
        if not members:
            return z3.BoolVal(False)
        return z3.Or(*[item.t == m for m in members])

    def idset_method(self, recv, name, args, node):
        self._no(node, "set mutation (rebind needed)")

    def call_classattr(self, o, args, kwargs, node, env):
        """Class.method(...): classmethod (cls is passed) or plain function looked up on the class."""
        _tag, mod, cls_node, attr = o
        fn = mod.defs.get(f"{cls_node.name}.{attr}")
        if fn is None:
            self._no(node, f"class attribute call {cls_node.name}.{attr}")
        is_cm = any(ast.unparse(d) == "classmethod" for d in fn.decorator_list)
        is_sm = any(ast.unparse(d) == "staticmethod" for d in fn.decorator_list)
        recv = VPy(("class", mod, cls_node), cls_node.name) if is_cm else None
        if not is_cm and not is_sm:
            self._no(node, f"unbound method call {cls_node.name}.{attr}")
        return self.ev.call_repo_function(mod, fn, args, kwargs, node, env, recv=recv)
