"""Symbolic heap: references, per-field arrays, heap lists, frames.  (Phase 1: stubs that keep
heap-free functions working; the real model is in heap_model.py and replaces this class.)"""
from __future__ import annotations

import z3

from .source import OutOfSubset


class HeapOps:
    def __init__(self, ev):
        self.ev = ev
        self.path = ev.path
        self.ctx = ev.ctx

    def _no(self, node, what):
        raise OutOfSubset(f"{self.ev.fn_name}:{getattr(node, 'lineno', '?')}", "heap: " + what)

    def init_path(self):
        pass

    def assume_wellformed_entry(self, env):
        pass

    def havoc_for_loop(self, lc, env, tag):
        pass

    def havoc_frame(self, c, cenv, sub):
        pass

    def check_frame_at_exit(self, contract, penv, fn, exceptional=None):
        pass

    def __getattr__(self, name):
        def f(*a, **k):
            node = None
            for x in a:
                if hasattr(x, "lineno"):
                    node = x
            self._no(node, name)

        return f
