"""Heap-reading specification primitives (abstract views of lists of bindings).

`first_binding(lst, key)` / `first_index(lst, key)`: the first element of the list that is a Binding
named `key` (None / -1 if there is none) - the lookup every mapping dunder and edit helper performs.
Encoded as uninterpreted functions of the *current* element array, length and name array, with the
defining characterisation instantiated at every use (no induction needed)."""
from __future__ import annotations

import z3

from pvc.spec import SPECS, Spec, z3spec
from pvc.values import VBool, VInt, VRef, VStr

_I = z3.IntVal


def _first(ev, lst, key, nested=None):
    from pvc.heap import ELEM_SORT, TAG
    from specs import heap_schema as S

    h = ev.path.heap
    E = h["$elem"][lst.t]
    n = h["$len"][lst.t]
    NAME = h["name"]
    NESTED = h["nested"]
    from pvc.values import VNone

    if nested is None or isinstance(nested, VNone):
        mode = -1
    else:
        sn = z3.simplify(nested.t)
        if not (z3.is_true(sn) or z3.is_false(sn)):
            raise ValueError("first_binding: `nested` must be a constant")
        mode = 1 if z3.is_true(sn) else 0
    fidx = z3.Function(f"first_index{mode}", ELEM_SORT, z3.IntSort(), NAME.sort(), NESTED.sort(), z3.StringSort(), z3.IntSort())
    idx = fidx(E, n, NAME, NESTED, key.t)
    bid = S.CLASSES["Binding"]

    def m(j):
        c = z3.And(E[j] != 0, TAG(E[j]) == _I(bid), NAME[E[j]] == key.t)
        if mode >= 0:
            c = z3.And(c, NESTED[E[j]] == z3.BoolVal(bool(mode)))
        return c

    j = z3.Const("j!first", z3.IntSort())
    ax = z3.Or(
        z3.And(idx == -1, z3.ForAll([j], z3.Implies(z3.And(j >= 0, j < n), z3.Not(m(j))), patterns=[E[j]])),
        z3.And(idx >= 0, idx < n, m(idx), z3.ForAll([j], z3.Implies(z3.And(j >= 0, j < idx), z3.Not(m(j))), patterns=[E[j]])),
    )
    key_ = ("first", idx.get_id())
    if key_ not in ev.path.unfolded:
        ev.path.unfolded.add(key_)
        ev.path.add_axiom(ax, trigger=idx)
        _closure(ev, E, n, h["$alloc"])
    return idx, E


def _closure(ev, E, n, alloc):
    """Heap closure for list elements: every element is an allocated reference (or None)."""
    k = ("closure", E.get_id(), alloc.get_id())
    if k in ev.path.unfolded:
        return
    ev.path.unfolded.add(k)
    j = z3.Const("j!cl", z3.IntSort())
    ev.path.add_axiom(z3.ForAll([j], z3.Implies(z3.And(j >= 0, j < n), z3.And(E[j] >= 0, E[j] < alloc)), patterns=[E[j]]))


def _split(ev, lst, key, nested):
    """(idx, E) with a case split when `nested` is a symbolic bool."""
    from pvc.values import VNone

    if nested is not None and not isinstance(nested, VNone):
        sn = z3.simplify(nested.t)
        if not (z3.is_true(sn) or z3.is_false(sn)):
            it, E = _first(ev, lst, key, VBool(z3.BoolVal(True)))
            if_, _ = _first(ev, lst, key, VBool(z3.BoolVal(False)))
            return z3.If(nested.t, it, if_), E
    return _first(ev, lst, key, nested)


def _z3_first_index(ev, lst, key, nested=None):
    idx, _ = _split(ev, lst, key, nested)
    return VInt(idx)


def _z3_first_binding(ev, lst, key, nested=None):
    idx, E = _split(ev, lst, key, nested)
    return VRef(z3.If(idx >= 0, E[idx], _I(0)), "Binding")


def _py_first_index(lst, key, nested=None):
    from nix_manipulator.expressions.binding import Binding

    for i, b in enumerate(lst):
        if isinstance(b, Binding) and b.name == key and (nested is None or b.nested == nested):
            return i
    return -1


@z3spec(_z3_first_index)
def first_index(lst, key, nested=None):
    return _py_first_index(lst, key, nested)


@z3spec(_z3_first_binding)
def first_binding(lst, key, nested=None):
    i = _py_first_index(lst, key, nested)
    return lst[i] if i >= 0 else None


def _z3_distinct(ev, lst):
    h = ev.path.heap
    E = h["$elem"][lst.t]
    n = h["$len"][lst.t]
    _closure(ev, E, n, h["$alloc"])
    a = z3.Const("a!dist", z3.IntSort())
    b = z3.Const("b!dist", z3.IntSort())
    return VBool(z3.ForAll([a, b], z3.Implies(z3.And(a >= 0, a < b, b < n), E[a] != E[b]), patterns=[z3.MultiPattern(E[a], E[b])]))


@z3spec(_z3_distinct)
def distinct_elems(lst):
    """No object occurs twice in the list (identity)."""
    return len({id(x) for x in lst}) == len(lst)


@z3spec(lambda ev, e: VStr(ev.path.heap["seg0"][e.t]))
def entry_root(e):
    """First attrpath segment (root name) of an _AttrpathEntry."""
    return e.segments[0] if e.segments else ""
