"""Heap schema for the pvc heap model: classes, subclass relation and field sorts.

Objects are references (Int, 0 = None) into per-field arrays.  Class membership is an immutable
uninterpreted function tag(ref).  List-valued fields hold references to heap list objects
(length + element array), so aliasing between lists is representable.

Field sorts are *assumed type invariants* of the dataclasses (a list-typed field always holds a
list object, etc.); they are listed under assumptions in the evidence.
"""

# class ids (arbitrary distinct ints)
CLASSES = {
    "NoneType": 0, "list": 1, "sentinel": 2, "Scope": 3, "pyvalue": 4, "dict": 5, "tuple": 6,
    "Binding": 10, "Inherit": 11, "AttributeSet": 12, "_AttrpathEntry": 13, "Identifier": 14, "FunctionCall": 15,
    "FunctionDefinition": 16, "LetExpression": 17, "WithStatement": 18, "Assertion": 19, "Parenthesis": 20, "Select": 21,
    "RawExpression": 22, "Comment": 23, "MultilineComment": 24, "NixList": 25, "Primitive": 26, "StringPrimitive": 27,
    "IntegerPrimitive": 28, "BooleanPrimitive": 29, "NullPrimitive": 30, "FloatExpression": 31, "NixPath": 32, "Import": 33,
    "IndentedString": 34, "BinaryExpression": 35, "UnaryExpression": 36, "IfExpression": 37, "HasAttrExpression": 38,
    "Ellipses": 39, "Operator": 40, "ScopeState": 41, "NixSourceCode": 42, "ResolutionContext": 43, "weakref": 44,
    "ScopeLayer": 45, "Layout": 46, "Path": 47, "OtherExpression": 48,
}

EXPRESSIONS = [
    "Binding", "Inherit", "AttributeSet", "Identifier", "FunctionCall", "FunctionDefinition", "LetExpression", "WithStatement",
    "Assertion", "Parenthesis", "Select", "RawExpression", "Comment", "MultilineComment", "NixList", "Primitive", "StringPrimitive",
    "IntegerPrimitive", "BooleanPrimitive", "NullPrimitive", "FloatExpression", "NixPath", "Import", "IndentedString",
    "BinaryExpression", "UnaryExpression", "IfExpression", "HasAttrExpression", "Ellipses", "Operator", "OtherExpression",
]

SUBCLASSES = {
    "NixExpression": EXPRESSIONS,
    "TypedExpression": EXPRESSIONS,
    "list": ["list", "Scope"],
    "Scope": ["Scope"],
    "Comment": ["Comment", "MultilineComment"],
    "Primitive": ["Primitive", "StringPrimitive", "IntegerPrimitive", "BooleanPrimitive", "NullPrimitive"],
    "dict": ["dict", "ScopeLayer"],
    "object": list(CLASSES),
}

# field name -> sort kind: 'ref' | 'str' | 'bool' | 'int' | 'seq:str'
FIELDS = {
    "name": "str", "nested": "bool", "value": "ref", "value_gap": "str",
    "values": "ref", "attrpath_order": "ref", "multiline": "bool", "recursive": "bool", "inner_trivia": "ref",
    "binding": "ref", "segments": "seq:str",
    "seg0": "str",  # derived: first attrpath segment of an _AttrpathEntry (avoids seq.nth in VCs)
    "before": "ref", "after": "ref", "scope": "ref", "scope_state": "ref", "owner": "ref",
    "body_before": "ref", "body_after": "ref", "after_let_comment": "ref", "stack": "ref",
    "local_variables": "ref", "names": "ref", "from_expression": "ref",
    "argument": "ref", "output": "ref", "body": "ref", "environment": "ref", "argument_set": "ref",
    "expressions": "ref", "trailing": "ref", "contains_error": "bool", "source_path": "ref", "node": "ref",
    "text": "str", "inline": "bool", "path": "str", "scopes": "ref", "default_value": "ref",
    "target": "ref", "context": "ref", "raw_string": "bool",
    "t0": "ref", "t1": "ref", "t2": "ref",  # components of boxed tuples of references (stack entries, registry entries)
}

# fields whose value is always a (non-None) list object of the given class
LIST_FIELDS = {
    "values": "list", "attrpath_order": "list", "before": "list", "after": "list", "scope": "Scope", "inner_trivia": "list",
    "body_before": "list", "body_after": "list", "stack": "list", "local_variables": "list", "names": "list",
    "expressions": "list", "trailing": "list",
}
# non-None object fields
OBJECT_FIELDS = {"scope_state": "ScopeState"}


def class_ids(name):
    names = SUBCLASSES.get(name, [name])
    return [CLASSES[n] for n in names if n in CLASSES]


# which classes carry a field (needed for getattr(obj, name, default) and hasattr)
FIELD_OWNERS = {
    "binding": ["_AttrpathEntry"],
    "scope": EXPRESSIONS, "scope_state": EXPRESSIONS, "before": EXPRESSIONS, "after": EXPRESSIONS,
    "values": ["AttributeSet"], "from_expression": ["Inherit"], "value": ["Binding", "Parenthesis", "LetExpression", "Primitive",
                                                                        "StringPrimitive", "IntegerPrimitive", "BooleanPrimitive", "NullPrimitive", "NixList"],
}
