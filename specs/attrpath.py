"""Trusted specification of how the text of an attrpath (`a."b.c".${d}.e`) falls into segments: at dots
that are outside double quotes and outside `${ ... }` interpolations.  Transcribed from the Nix lexer's
treatment of ATTRPATH components (string literals with backslash escapes, `${` opening an interpolation
whose body may itself contain strings and nested braces), independently of binding.py."""
import z3 as _z3

from pvc.spec import absorbing, fold, pure, z3spec
from pvc.values import VStr

AP_N = 0  # outside quotes and interpolations
AP_ND = 1  # ... and the previous character was a `$` (an interpolation opens if `{` follows)
AP_Q = 2  # inside a double-quoted component
AP_QE = 3  # ... after a backslash
AP_QD = 4  # ... after an unescaped `$`
AP_I = 5  # inside ${ ... } (depth >= 1), outside inner strings
AP_IQ = 6  # inside a string inside an interpolation
AP_IQE = 7  # ... after a backslash
AP_FAIL = 8  # an empty component was seen

_STRIP = _z3.Function("py_strip", _z3.StringSort(), _z3.StringSort())


@z3spec(lambda ev, s: VStr(_STRIP(s.t)))
def str_strip(s):
    """Python's str.strip() (uninterpreted on the SMT side; the code under contract uses the same symbol)."""
    return s.strip()


@fold(init=(0, 0, False, "", []), sorts=("int", "int", "bool", "str", "seq:str"),
      views={"ap_mode": 0, "ap_depth": 1, "ap_inq": 2, "ap_cur": 3, "ap_segs": 4})
def ap_step(mode, depth, inq, cur, segs, c):
    if mode == AP_FAIL:
        return (AP_FAIL, depth, inq, cur, segs)
    if mode == AP_I:
        if c == '"':
            return (AP_IQ, depth, inq, cur + c, segs)
        if c == "{":
            return (AP_I, depth + 1, inq, cur + c, segs)
        if c == "}":
            if depth == 1:
                if inq:
                    return (AP_Q, 0, inq, cur + c, segs)
                return (AP_N, 0, inq, cur + c, segs)
            return (AP_I, depth - 1, inq, cur + c, segs)
        return (AP_I, depth, inq, cur + c, segs)
    if mode == AP_IQE:
        return (AP_IQ, depth, inq, cur + c, segs)
    if mode == AP_IQ:
        if c == "\\":
            return (AP_IQE, depth, inq, cur + c, segs)
        if c == '"':
            return (AP_I, depth, inq, cur + c, segs)
        return (AP_IQ, depth, inq, cur + c, segs)
    if mode == AP_QE:
        return (AP_Q, depth, inq, cur + c, segs)
    if mode == AP_Q or mode == AP_QD:
        if mode == AP_QD and c == "{":
            return (AP_I, 1, True, cur + c, segs)
        if c == "$":
            return (AP_QD, depth, inq, cur + c, segs)
        if c == "\\":
            return (AP_QE, depth, inq, cur + c, segs)
        if c == '"':
            return (AP_N, 0, False, cur + c, segs)
        return (AP_Q, depth, inq, cur + c, segs)
    # AP_N / AP_ND
    if mode == AP_ND and c == "{":
        return (AP_I, 1, False, cur + c, segs)
    if c == '"':
        return (AP_Q, 0, True, cur + c, segs)
    if c == "$":
        return (AP_ND, 0, False, cur + c, segs)
    if c == ".":
        if str_strip(cur) == "":
            return (AP_FAIL, depth, inq, cur, segs)
        return (AP_N, 0, False, "", segs + [str_strip(cur)])
    return (AP_N, 0, False, cur + c, segs)


absorbing(ap_step, "mode == AP_FAIL")


@pure
def ap_accepts(t):
    """t is a complete attrpath text: no open quote or interpolation, no empty component."""
    return (ap_mode(t) == AP_N or ap_mode(t) == AP_ND) and str_strip(ap_cur(t)) != ""


@pure
def ap_result(t):
    """The components of a complete attrpath text."""
    return ap_segs(t) + [str_strip(ap_cur(t))]
