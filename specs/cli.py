"""Specification vocabulary for the command line (C16, C07): the CLI is specified relative to
what the *library* computes, which is represented by uninterpreted functions."""
from pvc.spec import pure, uninterp

# the parsed command line and the input channel (whatever argparse delivers)
cli_command = uninterp("cli_command", [], "str")
cli_npath = uninterp("cli_npath", [], "str")
cli_value = uninterp("cli_value", [], "str")
cli_input = uninterp("cli_input", [], "str")  # text read from -f FILE or stdin

# the library (parse / rebuild / set_value / remove_value), specified by their own contracts
lib_has_error = uninterp("lib_has_error", ["str"], "bool")  # parse(text).contains_error
lib_rebuild = uninterp("lib_rebuild", ["str"], "str")  # parse(text).rebuild()
lib_set = uninterp("lib_set", ["str", "str", "str"], "str")  # set_value(parse(text), npath, value)
lib_rm = uninterp("lib_rm", ["str", "str"], "str")  # remove_value(parse(text), npath)


@pure
def with_eol(t):
    """t, with a line terminator added only when it lacks one."""
    if t.endswith("\n"):
        return t
    return t + "\n"
