"""Trusted specification: how Nix reads the body of a double-quoted string.

Transcribed from the STRING start condition of Nix's lexer.l

    ([^\\$\\"\\\\]|\\$[^\\{\\"\\\\]|\\\\{ANY}|\\$\\\\{ANY})+   -> STR, value = unescapeStr(text)
    \\$\\{                                                   -> interpolation
    \\"                                                      -> end of string

and `unescapeStr` (\\n \\r \\t decoded, `\\x` -> x, a *raw* CR or CR LF reads as LF).

`dq_step` is the step function of a deterministic automaton over the characters between the
quotes; `dq_state(w)` / `dq_decode(w)` are its state and decoded output after reading w.
A body w is one plain (interpolation-free, properly terminated) string iff
dq_state(w) in (DQ_N, DQ_D, DQ_R), and Nix then reads it as dq_decode(w).

Adequacy of this transcription is cross-checked against tree-sitter-nix by bin/selftest.
"""
from pvc.spec import fold, pure

DQ_N = 0  # normal
DQ_D = 1  # just read a literal `$`
DQ_E = 2  # just read a backslash
DQ_R = 3  # just read a raw CR (a following LF is swallowed)
DQ_FAIL = 4  # interpolation opened, or unescaped `"` inside the body


@fold(init=(0, ""), sorts=("int", "str"), views={"dq_state": 0, "dq_decode": 1})
def dq_step(st, out, c):
    if st == DQ_FAIL:
        return (DQ_FAIL, out)
    if st == DQ_E:
        if c == "n":
            return (DQ_N, out + "\n")
        if c == "r":
            return (DQ_N, out + "\r")
        if c == "t":
            return (DQ_N, out + "\t")
        return (DQ_N, out + c)
    if st == DQ_R and c == "\n":
        return (DQ_N, out)
    if st == DQ_D:
        if c == "{":
            return (DQ_FAIL, out)
        if c == '"':
            return (DQ_FAIL, out)
        if c == "\\":
            return (DQ_E, out)
        if c == "\r":
            return (DQ_R, out + "\n")
        return (DQ_N, out + c)
    # DQ_N, or DQ_R followed by something else than LF
    if c == "\\":
        return (DQ_E, out)
    if c == '"':
        return (DQ_FAIL, out)
    if c == "$":
        return (DQ_D, out + "$")
    if c == "\r":
        return (DQ_R, out + "\n")
    return (DQ_N, out + c)


@pure
def dq_plain(st):
    """The body read so far is a complete plain string body."""
    return st == DQ_N or st == DQ_D or st == DQ_R


@pure
def no_db_at(s, k):
    """There is no `${` starting at position k of s."""
    return not (k >= 0 and k + 1 < len(s) and s[k] == "$" and s[k + 1] == "{")


def no_dollar_brace(s):
    return "${" not in s
