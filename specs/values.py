"""Specification vocabulary for rendered scalar values (C13) and filesystem paths (C17)."""
import z3 as _z3

from pvc.spec import pure, uninterp, z3spec
from pvc.values import VInt, VOpaque

# ---- pathlib, as uninterpreted operations (OS path semantics are not modelled) -------------------------
py_Path = uninterp("py_Path", ["str"], "opaque")  # Path(text)
path_parent = uninterp("attr_parent", ["opaque"], "opaque", spec_name="path_parent")  # p.parent
path_join = uninterp("op_Div", ["opaque", "opaque"], "opaque", spec_name="path_join")  # a / b
path_is_absolute = uninterp("meth_is_absolute", ["opaque"], "bool", spec_name="path_is_absolute")  # p.is_absolute()


@z3spec(lambda ev, s: VInt(_z3.If(_z3.PrefixOf(_z3.StringVal("-"), s.t),
                                  -_z3.StrToInt(_z3.SubString(s.t, 1, _z3.Length(s.t) - 1)), _z3.StrToInt(s.t))))
def dec_value(s):
    """The integer a decimal literal (optional leading minus) denotes."""
    return int(s)

# ---- files: what parse_file(path) returns is a function of the path (and the file system, fixed during a run)
parsed_file = uninterp("parsed_file", ["opaque"], "ref")
py_Path_of = uninterp("py_Path_of", ["opaque"], "opaque")
resolved_path_of = uninterp("resolved_path_of", ["ref"], "opaque")


# ---- resolution (C10 / C11): which binding defines an identifier is decided by _resolve_identifier (bounded stand-in b_c10);
# contracts of its callers only need a name for its answer
defining_binding = uninterp("defining_binding", ["ref"], "ref")

# the context the registry currently holds for an expression (what resolution._get_context answers); contracts of its
# callers only need a name for it
stored_context = uninterp("stored_context", ["ref"], "ref")
