"""Trusted specification vocabulary for whitespace gaps (C02, C06, C18): what a gap *means* to the
formatter - does it contain a line break, a blank line, and how far is the last line indented."""
import re as _re

import z3 as _z3

from pvc.spec import pure, z3spec
from pvc.values import VBool, VInt, VStr

_BLANK = _re.compile(r"\n[ \t]*\n")


def _blank_re():
    ws = _z3.Union(_z3.Re(" "), _z3.Re("\t"))
    anyc = _z3.Full(_z3.ReSort(_z3.StringSort()))
    return _z3.Concat(anyc, _z3.Re("\n"), _z3.Star(ws), _z3.Re("\n"), anyc)


@z3spec(lambda ev, s: VBool(_z3.InRe(s.t, _blank_re())))
def has_blank_line(s):
    """The text contains a blank line: two line feeds with only spaces/tabs between them."""
    return _BLANK.search(s) is not None


@z3spec(lambda ev, s: VBool(_z3.Contains(s.t, _z3.StringVal("\n"))))
def has_newline(s):
    return "\n" in s


def _z3_last_line_len(ev, s):
    """Characterised by a decomposition instead of seq.last_indexof (which cvc5 1.0 does not know and
    z3 reasons about poorly):  s = pre ++ "\n" ++ tail,  tail without "\n",  result = |tail|."""
    from pvc.engine import after_last

    res, _pre = after_last(ev.path, s.t, _z3.StringVal("\n"))
    return VInt(_z3.If(_z3.Contains(s.t, _z3.StringVal("\n")), _z3.Length(res), _z3.IntVal(0)))


@z3spec(_z3_last_line_len)
def last_line_len(s):
    """Number of characters after the last line feed (0 if there is none)."""
    return len(s) - s.rfind("\n") - 1 if "\n" in s else 0


def _sep_re():
    return _z3.Concat(_z3.Re("\n"), _z3.Option(_z3.Re("\n")), _z3.Star(_z3.Re(" ")))


@z3spec(lambda ev, s: VBool(_z3.InRe(s.t, _sep_re())))
def is_line_separator(s):
    """One line feed, optionally one blank line, then only spaces: no tab, no trailing blanks on a line."""
    return _re.fullmatch(r"\n\n? *", s) is not None
