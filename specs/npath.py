"""Trusted specification of NPath texts (docs/cli.md and the statements of C09 / C12)."""
from pvc.spec import fold, pure
from specs.nixlex import dq_plain, dq_state, dq_decode  # noqa: F401


# ---- scope selectors: leading '@' characters ------------------------------------------------
@fold(init=(1,), sorts=("int",), views={"at_run": 0})
def at_step(run, c):
    """run stays 1 while every character read so far is '@'."""
    if run == 1 and c == "@":
        return (1,)
    return (0,)


@pure
def leading_ats(s, d):
    """d is the number of leading '@' of s (unique d with: s[:d] all '@', s[d] is not '@')."""
    return 0 <= d and d <= len(s) and at_run(s[:d]) == 1 and (d == len(s) or s[d] != "@")


# ---- NPath grammar ---------------------------------------------------------------------------
#   path   := seg ('.' seg)*
#   seg    := bare | quoted
#   bare   := [A-Za-z_][A-Za-z0-9_']*
#   quoted := '"' ( c | '\"' | '\\' | '\n' | '\r' | '\t' | '\'c )* '"'      (c: any char but " and \)
# Everything else is malformed: empty path or segment, text before or after a quoted segment,
# unterminated quote, dangling escape, bare segment that is not an identifier.
import re as _re

import z3 as _z3

from pvc import types as _ty
from pvc.spec import z3spec
from pvc.values import VBool, VRec, VStr

_ty.declare_record("_NPathSegment", [("name", "str"), ("quoted", "bool")])

NP_B = 0  # in a bare segment (or at the start of a segment)
NP_Q = 1  # inside quotes
NP_QE = 2  # inside quotes, after a backslash
NP_A = 3  # after the closing quote: only '.' or the end may follow
NP_FAIL = 4

_BARE = _re.compile(r"[A-Za-z_][A-Za-z0-9_']*")


def _bare_re():
    az = _z3.Union(_z3.Range("A", "Z"), _z3.Range("a", "z"), _z3.Re("_"))
    rest = _z3.Union(az, _z3.Range("0", "9"), _z3.Re("'"))
    return _z3.Concat(az, _z3.Star(rest))


@z3spec(lambda ev, s: VBool(_z3.InRe(s.t, _bare_re())))
def is_bare_name(s):
    """s consists only of letters, digits, _ and ' and does not start with a digit or '."""
    return _BARE.fullmatch(s) is not None


@z3spec(lambda ev, name, quoted: VRec("_NPathSegment", {"name": name, "quoted": quoted}))
def mkseg(name, quoted):
    return (name, quoted)


@fold(init=(0, "", []), sorts=("int", "str", "seq:_NPathSegment"),
      views={"np_mode": 0, "np_cur": 1, "np_segs": 2})
def np_step(mode, cur, segs, c):
    if mode == NP_FAIL:
        return (NP_FAIL, cur, segs)
    if mode == NP_QE:
        if c == "n":
            return (NP_Q, cur + "\n", segs)
        if c == "r":
            return (NP_Q, cur + "\r", segs)
        if c == "t":
            return (NP_Q, cur + "\t", segs)
        if c == '"' or c == "\\":
            return (NP_Q, cur + c, segs)
        return (NP_Q, cur + "\\" + c, segs)
    if mode == NP_Q:
        if c == "\\":
            return (NP_QE, cur, segs)
        if c == '"':
            return (NP_A, cur, segs)
        return (NP_Q, cur + c, segs)
    if mode == NP_A:
        if c == ".":
            return (NP_B, "", segs + [mkseg(cur, True)])
        return (NP_FAIL, cur, segs)
    # NP_B
    if c == ".":
        if is_bare_name(cur):
            return (NP_B, "", segs + [mkseg(cur, False)])
        return (NP_FAIL, cur, segs)
    if c == '"':
        if cur == "":
            return (NP_Q, "", segs)
        return (NP_FAIL, cur, segs)
    return (NP_B, cur + c, segs)


@pure
def np_accepts(p):
    """p is a well-formed NPath."""
    return (np_mode(p) == NP_B and is_bare_name(np_cur(p))) or np_mode(p) == NP_A


@pure
def np_result(p):
    """The segments of a well-formed NPath p."""
    return np_segs(p) + [mkseg(np_cur(p), np_mode(p) == NP_A)]


from pvc.spec import absorbing  # noqa: E402

absorbing(np_step, "mode == NP_FAIL")


NIX_KEYWORDS = ("if", "then", "else", "assert", "with", "let", "in", "rec", "inherit", "or")


@z3spec(lambda ev, s: VBool(_z3.Or(*[s.t == _z3.StringVal(k) for k in NIX_KEYWORDS])))
def is_keyword(s):
    """s is a reserved word of the Nix grammar (cannot be written bare as an attribute name)."""
    return s in NIX_KEYWORDS


@pure
def attr_spelling(text, name, quoted):
    """`text` is a faithful spelling of the attribute `name` in Nix source: the bare name when that
    is possible and the segment was not quoted, otherwise a double-quoted string literal that the
    Nix lexer reads back as exactly `name` (no interpolation)."""
    if not quoted and is_bare_name(name) and not is_keyword(name):
        return text == name
    return (len(text) >= 2 and text[0] == '"' and text[len(text) - 1] == '"'
            and dq_plain(dq_state(text[1:len(text) - 1])) and dq_decode(text[1:len(text) - 1]) == name)
