"""Trusted specification of NPath texts (docs/cli.md and the statements of C09 / C12)."""
from pvc.spec import fold, pure


# ---- scope selectors: leading '@' characters ------------------------------------------------
@fold(init=(1,), sorts=("int",), views={"at_run": 0})
def at_step(run, c):
    """run stays 1 while every character read so far is '@'."""
    if run == 1 and c == "@":
        return (1,)
    return (0,)


@pure
def leading_ats(s, d):
    """d is the number of leading '@' of s (unique d with: s[:d] all '@', s[d] is not '@')."""
    return 0 <= d and d <= len(s) and at_run(s[:d]) == 1 and (d == len(s) or s[d] != "@")
