"""Specification vocabulary for the document object (C07, C16, C17)."""
from pvc.spec import uninterp

# text obtained by rebuilding the expressions of a document, in order (the layout code decides it)
exprs_text = uninterp("exprs_text", ["ref"], "str")

from pvc.spec import z3spec  # noqa: E402
from pvc.values import VBool  # noqa: E402
import z3 as _z3  # noqa: E402


def _z3_stack_nonempty(ev, e):
    h = ev.path.heap
    st = h["scope_state"][e.t]
    return VBool(h["$len"][h["stack"][st]] > 0)


@z3spec(_z3_stack_nonempty)
def scope_stack_nonempty(e):
    """The expression carries stacked (inner) let layers."""
    return bool(e.scope_state.stack)
