"""Contracts for nix_manipulator/expressions/scope.py (Scope mapping) and let.py (LetExpression mapping): C14, C09."""
from pvc.contract import contract, External, Loop
from pvc.types import *
import specs.heapspec  # noqa: F401

S = "nix_manipulator/expressions/scope.py"
L = "nix_manipulator/expressions/let.py"

_NOMATCH = "all(not (isinstance(self[j], Binding) and self[j].name == key) for j in range(_i))"

contract(
    target=f"{S}::Scope._find_binding_index",
    params={"self": Ref("Scope"), "key": Str},
    returns=Opt(Int),
    ensures=["iff(result is None, first_index(self, key) == -1)", "implies(result is not None, result == first_index(self, key))",
             "heap_unchanged()"],
    loops={0: Loop(invariant=[_NOMATCH])},
    domain=False,
    props=["C14", "C09"],
)

contract(
    target=f"{S}::Scope.get_binding",
    params={"self": Ref("Scope"), "key": Str},
    returns=Ref("Binding"),
    ensures=["result is first_binding(self, key)", "result is not None", "heap_unchanged()"],
    exsures={"KeyError": ["first_index(self, key) == -1", "heap_unchanged()"]},
    domain=False,
    props=["C14", "C09", "C10"],
)

contract(
    target=f"{S}::Scope._attrpath_order",
    params={"self": Ref("Scope")},
    returns=Opt(ListRef()),
    # the owner's render-order cache, or None when there is no owner or the cache is empty
    ensures=[
        "implies(self.owner is None, result is None)",
        "implies(self.owner is not None and len(self.owner.scope_state.attrpath_order) == 0, result is None)",
        "implies(self.owner is not None and len(self.owner.scope_state.attrpath_order) > 0, result is self.owner.scope_state.attrpath_order)",
        "heap_unchanged()",
    ],
    domain=False,
    props=["C14", "C09"],
)

_SC_WF = ["implies(self.owner is not None, self.owner.scope_state.attrpath_order is not self)", "distinct_elems(self)"]

contract(
    target=f"{S}::Scope.__setitem__",
    params={"self": Ref("Scope"), "key": Str, "value": Ref("NixExpression")},
    returns=NoneT,
    requires=_SC_WF,
    externals={"clear_resolution_context": External(returns=NoneT, note="touches only the resolution registry (C10)")},
    modifies=["self[]", "self.owner.scope_state.attrpath_order[]", "first_binding(self, key).value"],
    ensures=[
        "first_binding(self, key) is not None and first_binding(self, key).value is value",
        "implies(old(first_index(self, key)) >= 0, len(self) == old(len(self)) and first_binding(self, key) is old(first_binding(self, key)))",
        "implies(old(first_index(self, key)) == -1, len(self) == old(len(self)) + 1 and first_index(self, key) == old(len(self)) "
        "and all(self[j] is old(self[j]) for j in range(old(len(self)))))",
        # a fresh binding also enters the owner's render-order cache when that cache is in use
        "implies(old(first_index(self, key)) == -1 and self.owner is not None and old(len(self.owner.scope_state.attrpath_order)) > 0, "
        "len(self.owner.scope_state.attrpath_order) == old(len(self.owner.scope_state.attrpath_order)) + 1 and "
        "self.owner.scope_state.attrpath_order[len(self.owner.scope_state.attrpath_order) - 1] is self[len(self) - 1])",
    ],
    domain=False,
    props=["C14", "C09"],
)

contract(
    target=f"{S}::Scope.__delitem__",
    params={"self": Ref("Scope"), "key": Str},
    returns=NoneT,
    requires=_SC_WF + ["implies(self.owner is not None, distinct_elems(self.owner.scope_state.attrpath_order))"],
    modifies=["self[]", "self.owner.scope_state.attrpath_order[]"],
    ensures=[
        "old(first_index(self, key)) >= 0",
        "len(self) == old(len(self)) - 1",
        "all(self[j] is old(self[j]) for j in range(old(first_index(self, key))))",
        "all(self[j] is old(self[j + 1]) for j in range(old(first_index(self, key)), len(self)))",
    ],
    exsures={"KeyError": ["first_index(self, key) == -1", "heap_unchanged()"]},
    loops={0: Loop(index="_k", invariant=["True"])},
    domain=False,
    props=["C14", "C09", "C08"],
)

_LNOMATCH = "all(not (isinstance(self.local_variables[j], Binding) and self.local_variables[j].name == key) for j in range(_i))"

contract(
    target=f"{L}::LetExpression.__getitem__",
    params={"self": Ref("LetExpression"), "key": Str},
    returns=Ref(),
    ensures=["first_binding(self.local_variables, key) is not None", "result is first_binding(self.local_variables, key).value",
             "heap_unchanged()"],
    exsures={"KeyError": ["first_index(self.local_variables, key) == -1", "heap_unchanged()"]},
    loops={0: Loop(invariant=[_LNOMATCH])},
    domain=False,
    props=["C14"],
)

contract(
    target=f"{L}::LetExpression.__setitem__",
    params={"self": Ref("LetExpression"), "key": Str, "value": Ref("NixExpression")},
    returns=NoneT,
    modifies=["self.local_variables[]", "first_binding(self.local_variables, key).value"],
    ensures=[
        "first_binding(self.local_variables, key) is not None and first_binding(self.local_variables, key).value is value",
        "implies(old(first_index(self.local_variables, key)) >= 0, len(self.local_variables) == old(len(self.local_variables)))",
        "implies(old(first_index(self.local_variables, key)) == -1, len(self.local_variables) == old(len(self.local_variables)) + 1 "
        "and all(self.local_variables[j] is old(self.local_variables[j]) for j in range(old(len(self.local_variables)))))",
    ],
    loops={0: Loop(invariant=[_LNOMATCH])},
    domain=False,
    props=["C14"],
)

contract(
    target=f"{L}::LetExpression.__delitem__",
    params={"self": Ref("LetExpression"), "key": Str},
    returns=NoneT,
    modifies=["self.local_variables[]"],
    ensures=[
        "old(first_index(self.local_variables, key)) >= 0",
        "len(self.local_variables) == old(len(self.local_variables)) - 1",
        "all(self.local_variables[j] is old(self.local_variables[j]) for j in range(old(first_index(self.local_variables, key))))",
        "all(self.local_variables[j] is old(self.local_variables[j + 1]) for j in range(old(first_index(self.local_variables, key)), len(self.local_variables)))",
    ],
    exsures={"KeyError": ["first_index(self.local_variables, key) == -1", "heap_unchanged()"]},
    loops={0: Loop(invariant=[_LNOMATCH])},
    domain=False,
    props=["C14", "C08"],
)
