"""Contracts for nix_manipulator/expressions/primitive.py"""
from pvc.contract import contract, Loop
from pvc.types import *
import specs.nixlex  # noqa: F401

P = "nix_manipulator/expressions/primitive.py"

contract(
    target=f"{P}::_escape_nix_string",
    params={"value": Str, "escape_interpolation": Bool},
    returns=Str,
    requires=[],
    # "${" does not occur in value, unless interpolation is escaped
    requires_forall=[("k", "escape_interpolation or no_db_at(value, k)")],
    ensures=[
        "dq_state(result) == DQ_N or dq_state(result) == DQ_D",  # lexes as one plain string body
        "dq_decode(result) == value",  # Nix reads back exactly `value`
    ],
    exsures={},
    locals={"escaped": StrJoin},
    loops={
        0: Loop(
            invariant=[
                "0 <= index and index <= len(value)",
                "dq_state(''.join(escaped)) == DQ_N or dq_state(''.join(escaped)) == DQ_D",
                "dq_decode(''.join(escaped)) == value[:index]",
                "implies(dq_state(''.join(escaped)) == DQ_D, index > 0 and value[index - 1] == '$' "
                "and (index == len(value) or value[index] != '{'))",
            ],
            instances=["index", "index - 1"],
            decreases="len(value) - index",
        )
    },
    canaries=["dq_decode(result) == value + 'x'"],
    domain=dict(alphabet=["$", "{", "\\", '"', "a", "\n", "\r", "}", "\x0c", "\t"], max_len=4, max_len_thorough=5),
    props=["C12", "C13"],
)
