"""Contracts for nix_manipulator/expressions/set.py: the mapping dunders of AttributeSet (C14, C04, C19)."""
from pvc.contract import contract, External, Loop
from pvc.types import *
import specs.heapspec  # noqa: F401

F = "nix_manipulator/expressions/set.py"

_NOMATCH = "all(not (isinstance(self.values[j], Binding) and self.values[j].name == key) for j in range(_i))"
_NO_STALE_ENTRY = ("implies(old(first_binding(self.values, key).nested), all(not (isinstance(self.attrpath_order[j], _AttrpathEntry) "
                   "and entry_root(self.attrpath_order[j]) == key) for j in range(len(self.attrpath_order))))")
_WF = ["self.values is not self.attrpath_order", "distinct_elems(self.values)", "distinct_elems(self.attrpath_order)"]

contract(
    target=f"{F}::AttributeSet.__delitem__",
    params={"self": Ref("AttributeSet"), "key": Str},
    returns=NoneT,
    requires=_WF,
    modifies=["self.values[]", "self.attrpath_order[]"],
    ensures=[
        # the key was present: its first binding is gone, every other element keeps its place and order
        "old(first_index(self.values, key)) >= 0",
        "len(self.values) == old(len(self.values)) - 1",
        "all(self.values[j] is old(self.values[j]) for j in range(old(first_index(self.values, key))))",
        "all(self.values[j] is old(self.values[j + 1]) for j in range(old(first_index(self.values, key)), len(self.values)))",
        # the render-order cache never keeps the deleted binding object
        "all(self.attrpath_order[j] is not old(first_binding(self.values, key)) for j in range(len(self.attrpath_order)))",
        # ... nor an attrpath entry that was derived from it (C14: text shows exactly the bindings the mapping reports)
        _NO_STALE_ENTRY,
    ],
    exsures={"KeyError": ["first_index(self.values, key) == -1", "heap_unchanged()"]},
    loops={
        0: Loop(invariant=[_NOMATCH]),
        1: Loop(index="_k", invariant=["all(self.attrpath_order[j] is not binding for j in range(_k))"]),
    },
    domain=lambda tier: _set_domain(False)(tier),
    props=["C14", "C04", "C19", "C08"],
)

contract(
    target=f"{F}::AttributeSet.__setitem__",
    params={"self": Ref("AttributeSet"), "key": Str, "value": Ref("NixExpression")},
    returns=NoneT,
    # the dict-coercion branch (value is a Python dict) is not verified: excluded by the type of `value`
    requires=_WF,
    externals={"clear_resolution_context": External(returns=NoneT, note="touches only the resolution registry (C10)")},
    modifies=["self.values[]", "self.attrpath_order[]", "first_binding(self.values, key).value"],
    ensures=[
        # dictionary law: afterwards the first binding named `key` holds `value`
        "first_binding(self.values, key) is not None and first_binding(self.values, key).value is value",
        # existing key: the list of bindings is untouched (same objects, same order), nothing appended
        "implies(old(first_index(self.values, key)) >= 0, len(self.values) == old(len(self.values)) "
        "and first_binding(self.values, key) is old(first_binding(self.values, key)) "
        "and len(self.attrpath_order) == old(len(self.attrpath_order)))",
        # fresh key: exactly one new binding, appended last; the render-order cache gets the same object iff it is in use
        "implies(old(first_index(self.values, key)) == -1, len(self.values) == old(len(self.values)) + 1 "
        "and first_index(self.values, key) == old(len(self.values)) "
        "and all(self.values[j] is old(self.values[j]) for j in range(old(len(self.values)))))",
        "implies(old(first_index(self.values, key)) == -1 and old(len(self.attrpath_order)) > 0, "
        "len(self.attrpath_order) == old(len(self.attrpath_order)) + 1 "
        "and self.attrpath_order[len(self.attrpath_order) - 1] is self.values[len(self.values) - 1])",
        "implies(old(first_index(self.values, key)) == -1 and old(len(self.attrpath_order)) == 0, len(self.attrpath_order) == 0)",
        # ... and the entries the cache already had stay where they were
        "implies(old(first_index(self.values, key)) == -1, "
        "all(self.attrpath_order[j] is old(self.attrpath_order[j]) for j in range(old(len(self.attrpath_order)))))",
        # overwriting an attrpath-derived root must not leave its stale entries in the render-order cache (C14)
        "implies(old(first_index(self.values, key)) >= 0, " + _NO_STALE_ENTRY + ")",
    ],
    exsures={},
    loops={0: Loop(invariant=[_NOMATCH])},
    domain=lambda tier: _set_domain(True)(tier),
    props=["C14", "C04", "C19"],
)


# ---- bounded native domains (real AttributeSet objects obtained by parsing small sets) ------------------

_SET_TEXTS = [
    "{ }", "{ a = 1; }", "{ a = 1; b = 2; }", "{ a.b = 1; c = 2; }", "{ a.b = 1; a.c = 2; d = 3; }", "{ inherit a; b = 2; }",
    "{ a = { x = 1; }; b = 2; }", "{ a.b.c = 1; }", "rec { a = 1; b = a; }", "{\n  # c\n  a = 1;\n\n  b = 2;\n}",
    "{ a = 1; a' = 2; }", '{ "a" = 1; b = 2; }',
]


def _set_domain(with_value):
    def gen(tier):
        from nix_manipulator import parse
        from nix_manipulator.expressions import Identifier

        for t in _SET_TEXTS:
            for key in ["a", "b", "c", "zz", '"a"', ""]:
                s = parse(t).expr
                d = {"self": s, "key": key}
                if with_value:
                    d["value"] = Identifier(name="newvalue")
                yield d

    return gen

def _getitem_domain(tier):
    """plain, inherited, dotted, quoted and malformed keys on small parsed sets (the three routes of the lookup and every refusal)"""
    from nix_manipulator import parse
    from nix_manipulator.expressions import Identifier

    texts = _SET_TEXTS + ["{ inherit (s) a b; }", "{ a = { b = { c = 1; }; x = 2; }; }", "let a = 1; in { inherit a; m = { inherit a; }; }",
                          "{ a.b = { c = 1; }; }", '{ a."b.c" = 1; }']
    for t in texts:
        for key in ["a", "b", "c", "zz", '"a"', "", "a.b", "a.b.c", "a.x", "a.b.c.d", "a.", ".a", 'a."b.c"', 'a."b', "a.${b}", "m.a"]:
            yield {"self": parse(t).expr, "key": key}
            # the same lookup after the key was assigned through the mapping (a dotted key is then ONE binding called `a.b`):
            # the first route must answer before the key is taken apart
            s = parse(t).expr
            try:
                s[key] = Identifier(name="newvalue")
            except Exception:
                continue
            yield {"self": s, "key": key}


# ---------------------------------------------------------------------------------------------
# parse-time merge of attrpath-derived nested sets (`a.b.c = 1; a.b.d = 2;` -> one tree).  No ownership invariant is
# assumed, so no whole-tree postcondition is stated; what is proved is what every step hands on: a binding is appended
# only when the target has no binding of that name yet, and a same-named pair of nested sets is merged into exactly
# the existing binding's own set (C05 / C04 / C14: the tree that set / rm / lookups navigate agrees with the text).
contract(
    target=f"{F}::_merge_attrpath_sets",
    params={"target": Ref("AttributeSet"), "incoming": Ref("AttributeSet")},
    returns=NoneT,
    modifies=["*"],
    call_asserts={
        "target.values.append#0": ["isinstance(arg0, Binding) and arg0 is item", "first_binding(target.values, item.name) is None"],
        "_merge_attrpath_sets": ["existing is first_binding(caller_target.values, item.name)", "target is existing.value and incoming is item.value",
                                 "isinstance(existing.value, AttributeSet) and isinstance(item.value, AttributeSet)",
                                 "existing.nested == item.nested"],
        "target.values.append#1": ["arg0 is item and not (existing.nested and item.nested)"],
        "target.values.append#2": ["arg0 is item and not isinstance(item, Binding)"],
    },
    ensures=[],
    exsures={"ValueError": []},
    loops={0: Loop(invariant=["True"], modifies=["*"])},
    domain=False,
    props=["C05", "C04", "C14"],
)


# ---- the lookup dunder: used by callers that walk a path through nested sets -----------------------------------------------------
# Verified on the real code (three routes: a plain binding; a name brought in by `inherit`, answered with a *fresh* Identifier that
# carries a resolution context; a dotted key walked through nested sets).  What callers rely on: a lookup writes no field of the
# document, answers with the value of the first binding of that name when there is one, with an object of the document or - only
# when no binding has that name - a fresh Identifier, raises KeyError on an empty set.  Assumed, not checked against the body
# (`assumed_ensures`): every set handed out satisfies the representation invariant of AttributeSet - a heap-wide invariant of
# parsed documents the verifier has no device for.  Assumed externals: the resolution-context helpers write the registry only;
# their single heap write, `owner.scope.owner = owner` in `_as_scope`, re-stores the back-pointer every parsed set already has.
_CTX_NOTE = ("writes only the resolution-context registry (_store_context, proved separately); its one heap write, `owner.scope.owner = owner` "
             "in _as_scope, re-stores the back-pointer a parsed set already has")
contract(
    target="nix_manipulator/expressions/set.py::AttributeSet.__getitem__",
    params={"self": Ref("AttributeSet"), "key": Str},
    returns=Ref("NixExpression"),
    modifies=[],
    externals={
        "attach_resolution_context": External(returns=Ref("NixExpression"), params=["expr", "owner"], modifies=[], ensures=["heap_unchanged()"],
                                              note=_CTX_NOTE),
        "set_resolution_context": External(returns=NoneT, params=["expr", "scopes"], modifies=[], ensures=["heap_unchanged()"], note=_CTX_NOTE),
        "scopes_for_owner": External(returns=ListRef("Scope"), params=["owner"], fresh=True, modifies=[],
                                     note="proved separately for plain sets; here only: a fresh chain, " + _CTX_NOTE),
        "name_expr.model_copy": External(returns=Ref("Identifier"), params=[], fresh=True, modifies=[], note="pydantic copy: a fresh object"),
        "Identifier": External(returns=Ref("Identifier"), params=["name"], fresh=True, modifies=[], note="constructor: a fresh object"),
        "Scope": External(returns=Ref("Scope"), params=["items", "owner"], fresh=True, modifies=[], note="constructor: a fresh container"),
        "_split_attrpath": External(returns=ArrOf("str"), params=["attrpath"], modifies=[], ensures=["heap_unchanged()"],
                                    exsures={"ValueError": ["heap_unchanged()"]},
                                    note="proved separately against the attrpath component automaton (C12); here only: a pure function of the key"),
    },
    ensures=["heap_unchanged()", "first_binding(self.values, key) is None or result is first_binding(self.values, key).value",
             # an object of the document - or, only for a name no binding has (an inherited one), a fresh Identifier
             "result is None or result < alloc_at_entry() or (first_binding(self.values, key) is None and isinstance(result, Identifier))",
             # something was found: the set is not empty (an empty set raises KeyError)
             "len(self.values) > 0"],
    # representation invariant of every AttributeSet of the document (assumed)
    assumed_ensures=["implies(isinstance(result, AttributeSet), result.values is not result.attrpath_order and distinct_elems(result.values) and distinct_elems(result.attrpath_order))"],
    exsures={"KeyError": ["first_binding(self.values, key) is None", "heap_unchanged()"]},
    loops={0: Loop(invariant=[_NOMATCH]),
           1: Loop(invariant=["isinstance(current, AttributeSet) and current < alloc_at_entry()", "implies(_i == 0, current is self)",
                              "implies(_i > 0, len(self.values) > 0)", "heap_unchanged()"])},
    canaries=["result < alloc_at_entry()", "first_binding(self.values, key) is not None"],
    domain=lambda tier: _getitem_domain(tier),
    # every edit property: set / rm walk explicit nested sets with this lookup (_resolve_npath_parent)
    props=["C04", "C05", "C08", "C09", "C19", "C14"],
)
