"""Contracts for value rendering (C13) and path/import resolution (C17)."""
from pvc.contract import contract, External, Loop
from pvc.types import *
import specs.nixlex  # noqa: F401
import specs.values  # noqa: F401

P = "nix_manipulator/expressions/primitive.py"
PA = "nix_manipulator/expressions/path.py"

contract(
    target=f"{P}::StringPrimitive._render_value",
    params={"self": Obj(value=Str, raw_string=Bool)},
    returns=Str,
    # constructed strings (raw_string False) must not contain `${` (property C13's domain)
    requires_forall=[("k", "self.raw_string or no_db_at(self.value, k)")],
    ensures=[
        "len(result) >= 2 and result[0] == '\"' and result[len(result) - 1] == '\"'",
        # a constructed string renders to a literal that Nix reads back as exactly the same text
        "implies(not self.raw_string, dq_plain(dq_state(result[1:len(result) - 1])) and dq_decode(result[1:len(result) - 1]) == self.value)",
        # parsed strings are re-emitted verbatim
        "implies(self.raw_string, result[1:len(result) - 1] == self.value)",
    ],
    canaries=["dq_decode(result[1:len(result) - 1]) == self.value + 'x'"],
    domain=False,
    props=["C13", "C01"],
)

contract(
    target=f"{P}::IntegerPrimitive._render_value",
    params={"self": Obj(value=Int)},
    returns=Str,
    ensures=["dec_value(result) == self.value", "implies(self.value >= 0, not result.startswith('-'))"],
    domain=False,
    props=["C13"],
)

contract(
    target=f"{P}::BooleanPrimitive._render_value",
    params={"self": Obj(value=Bool)},
    returns=Str,
    ensures=["result == ('true' if self.value else 'false')"],
    domain=False,
    props=["C13"],
)

contract(
    target=f"{P}::_primitive_cls_from_value",
    params={"value": OneOf(Bool, NoneT, Int, Str, Opaque)},
    returns=Opaque,
    # bool before int (True is an int in Python), None, int, str; anything else falls back to Primitive
    ensures=[
        "implies(isinstance(value, bool), result is BooleanPrimitive)",
        "implies(value is None, result is NullPrimitive)",
        "implies(isinstance(value, int) and not isinstance(value, bool), result is IntegerPrimitive)",
        "implies(isinstance(value, str), result is StringPrimitive)",
    ],
    domain=False,
    props=["C13"],
)

contract(
    target=f"{PA}::NixPath.resolved_path",
    params={"self": Obj(path=Str, source_path=Opt(Opaque))},
    returns=Opaque,
    externals={"Path": External(returns=Opaque, params=["text"], ensures=["result == py_Path(text)"])},
    opaque_methods={"is_absolute": Bool},
    ensures=[
        "not (self.path.startswith('<') and self.path.endswith('>'))",
        # absolute literal, or no known importing file: the literal itself
        "implies(path_is_absolute(py_Path(self.path)) or self.source_path is None, result == py_Path(self.path))",
        # otherwise: relative to the directory of the file that contains the literal - never to the cwd
        "implies(not path_is_absolute(py_Path(self.path)) and self.source_path is not None, "
        "result == path_join(path_parent(self.source_path), py_Path(self.path)))",
    ],
    exsures={"ValueError": ["self.path.startswith('<') and self.path.endswith('>')"]},
    domain=False,
    props=["C17"],
)
