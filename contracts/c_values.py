"""Contracts for value rendering (C13) and path/import resolution (C17)."""
from pvc.contract import contract, External, Loop
from pvc.types import *
import specs.nixlex  # noqa: F401
import specs.values  # noqa: F401

P = "nix_manipulator/expressions/primitive.py"
PA = "nix_manipulator/expressions/path.py"

contract(
    target=f"{P}::StringPrimitive._render_value",
    params={"self": Obj(value=Str, raw_string=Bool)},
    returns=Str,
    # constructed strings (raw_string False) must not contain `${` (property C13's domain)
    requires_forall=[("k", "self.raw_string or no_db_at(self.value, k)")],
    ensures=[
        "len(result) >= 2 and result[0] == '\"' and result[len(result) - 1] == '\"'",
        # a constructed string renders to a literal that Nix reads back as exactly the same text
        "implies(not self.raw_string, dq_plain(dq_state(result[1:len(result) - 1])) and dq_decode(result[1:len(result) - 1]) == self.value)",
        # parsed strings are re-emitted verbatim
        "implies(self.raw_string, result[1:len(result) - 1] == self.value)",
    ],
    canaries=["dq_decode(result[1:len(result) - 1]) == self.value + 'x'"],
    domain=False,
    props=["C13", "C01"],
)

contract(
    target=f"{P}::IntegerPrimitive._render_value",
    params={"self": Obj(value=Int)},
    returns=Str,
    ensures=["dec_value(result) == self.value", "implies(self.value >= 0, not result.startswith('-'))"],
    domain=False,
    props=["C13"],
)

contract(
    target=f"{P}::BooleanPrimitive._render_value",
    params={"self": Obj(value=Bool)},
    returns=Str,
    ensures=["result == ('true' if self.value else 'false')"],
    domain=False,
    props=["C13"],
)

contract(
    target=f"{P}::_primitive_cls_from_value",
    params={"value": OneOf(Bool, NoneT, Int, Str, Opaque)},
    returns=Opaque,
    # bool before int (True is an int in Python), None, int, str; anything else falls back to Primitive
    ensures=[
        "implies(isinstance(value, bool), result is BooleanPrimitive)",
        "implies(value is None, result is NullPrimitive)",
        "implies(isinstance(value, int) and not isinstance(value, bool), result is IntegerPrimitive)",
        "implies(isinstance(value, str), result is StringPrimitive)",
    ],
    domain=False,
    props=["C13"],
)

contract(
    target=f"{PA}::NixPath.resolved_path",
    params={"self": Obj(path=Str, source_path=Opt(Opaque))},
    returns=Opaque,
    externals={"Path": External(returns=Opaque, params=["text"], ensures=["result == py_Path(text)"])},
    opaque_methods={"is_absolute": Bool},
    ensures=[
        "not (self.path.startswith('<') and self.path.endswith('>'))",
        # absolute literal, or no known importing file: the literal itself
        "implies(path_is_absolute(py_Path(self.path)) or self.source_path is None, result == py_Path(self.path))",
        # otherwise: relative to the directory of the file that contains the literal - never to the cwd
        "implies(not path_is_absolute(py_Path(self.path)) and self.source_path is not None, "
        "result == path_join(path_parent(self.source_path), py_Path(self.path)))",
    ],
    exsures={"ValueError": ["self.path.startswith('<') and self.path.endswith('>')"]},
    domain=False,
    props=["C17"],
)

PRS = "nix_manipulator/parser.py"
IMP = "nix_manipulator/expressions/import_expression.py"

contract(
    target=f"{PA}::source_path_context",
    kind="function",
    params={"path": Opt(Opaque)},
    returns=NoneT,
    domain=False,
    props=[],
    trusted=True,  # only used inlined (generator-based context manager); see parse_file
)

contract(
    target=f"{PRS}::parse_file",
    params={"path": Opaque},
    returns=Ref("NixSourceCode"),
    modifies=["*"],
    externals={
        "Path": External(returns=Opaque, params=["p"], ensures=["result == py_Path_of(p)"]),
        "parse": External(returns=Ref("NixSourceCode"), params=["source_code", "source_path"], modifies=["*"], exsures={"ValueError": []}),
    },
    opaque_methods={"read_text": Str},
    call_asserts={
        # for the whole dynamic extent of parse() the context variable names the file being parsed,
        # so every path literal created by from_cst records the file that contains it
        "parse": ["ctx_value('nix_source_path') is path", "source_path is path"],
    },
    # and it is restored afterwards, on the normal and on the exceptional exit
    ensures=["ctx_value('nix_source_path') is None"],
    exsures={"ValueError": ["ctx_value('nix_source_path') is None"]},
    domain=False,
    props=["C17"],
)

contract(
    target=f"{IMP}::Import._resolve_argument",
    params={"self": Ref("Import")},
    returns=Ref("NixExpression"),
    ensures=["not isinstance(result, Parenthesis)", "heap_unchanged()"],
    exsures={"TypeError": ["self.argument is None"]},
    loops={0: Loop(invariant=["True"])},
    domain=False,
    props=["C17"],
)

contract(
    target=f"{IMP}::Import._follow_import",
    params={"self": Ref("Import")},
    returns=Ref("NixSourceCode"),
    modifies=["*"],
    externals={
        "argument.resolved_path": External(returns=Opaque, ensures=["result == resolved_path_of(argument)"],
                                           exsures={"ValueError": []}, note="own contract: NixPath.resolved_path"),
        "parse_file": External(returns=Ref("NixSourceCode"), params=["path"], modifies=["*"], ensures=["result is parsed_file(path)"],
                               exsures={"ValueError": [], "OSError": []}, note="own contract: parse_file"),
    },
    call_asserts={
        # the file that is parsed next is the one the (parenthesis-free) path literal resolves to - relative to
        # the file that contains this import (NixPath.resolved_path), never to the working directory
        "parse_file": ["isinstance(argument, NixPath)", "path == resolved_path_of(argument)"],
    },
    exsures={"TypeError": [], "ValueError": [], "OSError": []},
    domain=False,
    props=["C17"],
)
