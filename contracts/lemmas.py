"""Lemmas over contracts: ghost client programs that call contracted functions *by contract only*
and assert a law.  They contain no repository code of their own; pvc proves them with the same
engine, so they hold or fail with the contracts they are built from."""
from nix_manipulator.cli.manipulations import _format_attr_name, _parse_npath
from nix_manipulator.expressions.raw import RawExpression
from nix_manipulator.parser import parse


def lemma_error_source_passes_through(text):
    """C07: for a source with a syntax error, the single raw node rebuilds to exactly the input."""
    src = parse(text)
    if src.contains_error:
        raw = src.expressions[0]
        assert isinstance(raw, RawExpression)
        piece = raw.rebuild()
        assert piece == text
        assert len(src.trailing) == 0
    return None
