"""Lemmas over contracts: ghost client programs that call contracted functions *by contract only*
and assert a law.  They contain no repository code of their own; pvc proves them with the same
engine, so they hold or fail with the contracts they are built from."""
from nix_manipulator.cli.manipulations import _format_attr_name, _parse_npath
from nix_manipulator.expressions.raw import RawExpression
from nix_manipulator.parser import parse


def lemma_error_source_passes_through(text):
    """C07: for a source with a syntax error, the single raw node rebuilds to exactly the input."""
    src = parse(text)
    if src.contains_error:
        raw = src.expressions[0]
        assert isinstance(raw, RawExpression)
        piece = raw.rebuild()
        assert piece == text
        assert len(src.trailing) == 0
    return None


def lemma_context_served_only_to_its_owner(a, b, ctx):
    """C10: a context stored for one object is returned for that object; another object never receives it unless
    it was (validly) stored for that object too - even when the registry held an arbitrary, possibly stale
    same-id entry for it before."""
    from nix_manipulator.resolution import _CONTEXTS, _get_context, _store_context

    before_b = _CONTEXTS.get(id(b))
    _store_context(a, ctx)
    got = _get_context(a)
    assert got is ctx
    if b is not a:
        other = _get_context(b)
        if other is not None:
            # what b gets is what the registry validly held for b itself (weak reference still pointing at b)
            assert before_b is not None
            assert before_b[0]() is b
            assert other is before_b[1]
    return None
