"""binding.py: the splitter that turns the text of an attrpath into components (C12: "splits the path only at
unquoted dots"; it is how the library re-reads the names it wrote)."""
from pvc.contract import contract, Loop
from pvc.types import *
import specs.attrpath  # noqa: F401

B = "nix_manipulator/expressions/binding.py"

_M = "ap_mode(text[:index])"
_INV = [
    "0 <= index and index <= len(text)",
    f"{_M} != AP_FAIL",
    # the flags of the program mirror the automaton after the prefix read so far
    "interp_depth >= 0",
    f"iff(interp_depth > 0 and not interp_in_quotes, {_M} == AP_I)",
    f"iff(interp_depth > 0 and interp_in_quotes and not interp_escape, {_M} == AP_IQ)",
    f"iff(interp_depth > 0 and interp_in_quotes and interp_escape, {_M} == AP_IQE)",
    "implies(interp_depth > 0, ap_depth(text[:index]) == interp_depth and ap_inq(text[:index]) == in_quotes and not escape)",
    "implies(interp_escape, interp_in_quotes)",
    "implies(interp_in_quotes, interp_depth > 0)",
    f"iff(interp_depth == 0 and in_quotes and escape, {_M} == AP_QE)",
    f"iff(interp_depth == 0 and in_quotes and not escape, {_M} == AP_Q or {_M} == AP_QD)",
    f"iff(interp_depth == 0 and not in_quotes, {_M} == AP_N or {_M} == AP_ND)",
    "implies(escape, in_quotes)",
    # a `$` that was read as an ordinary character is not followed by `{` (otherwise both were consumed together)
    f"implies({_M} == AP_ND or {_M} == AP_QD, index == len(text) or text[index] != '{{')",
    "''.join(buffer) == ap_cur(text[:index])",
    "segments == ap_segs(text[:index])",
]

contract(
    target=f"{B}::_split_attrpath",
    params={"text": Str},
    returns=SeqOf("str"),
    ensures=["ap_accepts(text)", "result == ap_result(text)"],
    exsures={"ValueError": ["not ap_accepts(text)"]},
    locals={"buffer": StrJoin, "segments": SeqOf("str")},
    loops={0: Loop(invariant=_INV, decreases="len(text) - index", ghost_begin=["ap_mode(text[:index + 1])", "ap_mode(text)"])},
    canaries=["len(result) == 0"],
    domain=dict(alphabet=["a", ".", '"', "\\", "$", "{", "}", " "], max_len=5, max_len_thorough=6),
    # how a document attrpath is cut into names is what every edit-side lookup of an attrpath family rests on
    props=["C12", "C04", "C05", "C08", "C14", "C19"],
)
