"""The resolution-context registry (C10: "_CONTEXTS ... must never serve a dead object's chain to a new
object").  _CONTEXTS maps id(expr) to (weak reference, context); ids are reused by CPython once an object
is gone, so an entry is only valid while its weak reference still points at the very object that asks.
The registry content at function entry is arbitrary here (no registry invariant is assumed): in particular it
may hold an entry left behind by a dead object with the same id."""
from pvc.contract import contract, External, Loop
from pvc.types import *
import specs.values  # noqa: F401

R = "nix_manipulator/resolution.py"
_ENTRY = "global_map('_CONTEXTS', id(expr))"

contract(
    target=f"{R}::_get_context",
    params={"expr": Ref("NixExpression")},
    returns=Opt(Ref("ResolutionContext")),
    global_maps={"_CONTEXTS": "tuple"},
    global_map_keys={"_CONTEXTS": ["id(expr)"]},
    modifies=[],
    ensures=[
        # a context is handed out only if it was stored for this very object
        f"implies(result is not None, old({_ENTRY}) is not None and old({_ENTRY})[0] is not None and old({_ENTRY})[0].target is expr "
        f"and result is old({_ENTRY})[1])",
        # an entry whose weak reference is dead or points elsewhere is never served - and is dropped
        f"implies(old({_ENTRY}) is not None and old({_ENTRY})[0] is not None and old({_ENTRY})[0].target is not expr, "
        f"result is None and {_ENTRY} is None)",
        # a valid entry is served
        f"implies(old({_ENTRY}) is not None and old({_ENTRY})[0].target is expr, result is old({_ENTRY})[1])",
        # a valid entry stays
        f"implies(result is not None, {_ENTRY} is old({_ENTRY}))",
        "heap_unchanged()",
    ],
    # type invariant of the registry: entries are (weak reference, context) pairs
    requires=[f"implies({_ENTRY} is not None, {_ENTRY}[0] is not None and isinstance({_ENTRY}[0], weakref))"],
    domain=False,
    props=["C10", "C11"],
)

contract(
    target=f"{R}::_store_context",
    params={"expr": Ref("NixExpression"), "context": Ref("ResolutionContext")},
    returns=NoneT,
    global_maps={"_CONTEXTS": "tuple"},
    global_map_keys={"_CONTEXTS": ["id(expr)"]},
    modifies=[],
    ensures=[
        f"{_ENTRY} is not None and {_ENTRY}[0] is not None and isinstance({_ENTRY}[0], weakref) and {_ENTRY}[0].target is expr and {_ENTRY}[1] is context",
        "heap_unchanged()",
    ],
    domain=False,
    props=["C10", "C11"],
)

contract(
    kind="lemma",
    target="/verif/contracts/lemmas.py::lemma_context_served_only_to_its_owner",
    params={"a": Ref("NixExpression"), "b": Ref("NixExpression"), "ctx": Ref("ResolutionContext")},
    returns=NoneT,
    requires=["implies(global_map('_CONTEXTS', id(b)) is not None, global_map('_CONTEXTS', id(b))[0] is not None and "
              "isinstance(global_map('_CONTEXTS', id(b))[0], weakref))"],
    global_maps={"_CONTEXTS": "tuple"},
    modifies=["*"],
    ensures=[],
    exsures={},  # the assertions must never fail
    domain=False,
    props=["C10", "C11"],
)

# scope chain of an owner (C10: "the innermost enclosing let ... wins"; C11): the chain starts with the chain the owner
# inherited, in the same order, and the owner's own outermost let layer comes right after it - as the very object
# (identity, not equality: a layer that merely looks like an enclosing one is still a layer of its own).
# Restricted to a non-recursive attribute set as owner (the `rec`, `with` and call cases go through helpers that are not
# under contract); the inner layers come from a list comprehension, which pvc only over-approximates.
contract(
    target=f"{R}::scopes_for_owner",
    params={"owner": Ref("AttributeSet")},
    returns=ListRef("Scope"),
    requires=["not owner.recursive", "owner.scope is not None"],
    global_maps={"_CONTEXTS": "tuple"},
    modifies=["*"],
    externals={
        "_get_context": External(returns=Opt(Ref("ResolutionContext")), params=["expr"], modifies=[],
                                 ensures=["result is stored_context(expr)", "implies(result is not None, result.scopes is not None)"]),
        "_collect_scopes_from_layers": External(returns=ListRef("Scope"), params=["layers", "owner"], fresh=True, modifies=[]),
        "_as_scope": External(returns=Ref("Scope"), params=["value", "owner"], modifies=["value.owner"],
                              ensures=["implies(isinstance(value, Scope), result is value)"]),
    },
    ensures=[
        "result is not None",
        # inherited chain first, unchanged and in order; the owner's own outermost layer directly after it
        "implies(stored_context(owner) is not None, len(result) >= len(stored_context(owner).scopes) and "
        "all(result[k] is stored_context(owner).scopes[k] for k in range(len(stored_context(owner).scopes))))",
        "implies(stored_context(owner) is not None and len(owner.scope) > 0, len(result) > len(stored_context(owner).scopes) and "
        "result[len(stored_context(owner).scopes)] is owner.scope)",
        "implies(stored_context(owner) is None and len(owner.scope) > 0, len(result) > 0 and result[0] is owner.scope)",
    ],
    loops={0: Loop(invariant=["implies(len(owner.scope) > 0, len(owner_scopes) >= 1 and owner_scopes[0] is owner.scope)"],
                   modifies=["owner_scopes[]"])},
    locals={"scopes": ListRef("Scope"), "owner_scopes": ListRef("Scope")},
    domain=False,
    props=["C10", "C11"],
)
