"""The resolution-context registry (C10: "_CONTEXTS ... must never serve a dead object's chain to a new
object").  _CONTEXTS maps id(expr) to (weak reference, context); ids are reused by CPython once an object
is gone, so an entry is only valid while its weak reference still points at the very object that asks.
The registry content at function entry is arbitrary here (no registry invariant is assumed): in particular it
may hold an entry left behind by a dead object with the same id."""
from pvc.contract import contract, External, Loop
from pvc.types import *

R = "nix_manipulator/resolution.py"
_ENTRY = "global_map('_CONTEXTS', id(expr))"

contract(
    target=f"{R}::_get_context",
    params={"expr": Ref("NixExpression")},
    returns=Opt(Ref("ResolutionContext")),
    global_maps={"_CONTEXTS": "tuple"},
    global_map_keys={"_CONTEXTS": ["id(expr)"]},
    modifies=[],
    ensures=[
        # a context is handed out only if it was stored for this very object
        f"implies(result is not None, old({_ENTRY}) is not None and old({_ENTRY})[0] is not None and old({_ENTRY})[0].target is expr "
        f"and result is old({_ENTRY})[1])",
        # an entry whose weak reference is dead or points elsewhere is never served - and is dropped
        f"implies(old({_ENTRY}) is not None and old({_ENTRY})[0] is not None and old({_ENTRY})[0].target is not expr, "
        f"result is None and {_ENTRY} is None)",
        # a valid entry is served
        f"implies(old({_ENTRY}) is not None and old({_ENTRY})[0].target is expr, result is old({_ENTRY})[1])",
        # a valid entry stays
        f"implies(result is not None, {_ENTRY} is old({_ENTRY}))",
        "heap_unchanged()",
    ],
    # type invariant of the registry: entries are (weak reference, context) pairs
    requires=[f"implies({_ENTRY} is not None, {_ENTRY}[0] is not None and isinstance({_ENTRY}[0], weakref))"],
    domain=False,
    props=["C10"],
)

contract(
    target=f"{R}::_store_context",
    params={"expr": Ref("NixExpression"), "context": Ref("ResolutionContext")},
    returns=NoneT,
    global_maps={"_CONTEXTS": "tuple"},
    global_map_keys={"_CONTEXTS": ["id(expr)"]},
    modifies=[],
    ensures=[
        f"{_ENTRY} is not None and {_ENTRY}[0] is not None and isinstance({_ENTRY}[0], weakref) and {_ENTRY}[0].target is expr and {_ENTRY}[1] is context",
        "heap_unchanged()",
    ],
    domain=False,
    props=["C10"],
)

contract(
    kind="lemma",
    target="/verif/contracts/lemmas.py::lemma_context_served_only_to_its_owner",
    params={"a": Ref("NixExpression"), "b": Ref("NixExpression"), "ctx": Ref("ResolutionContext")},
    returns=NoneT,
    requires=["implies(global_map('_CONTEXTS', id(b)) is not None, global_map('_CONTEXTS', id(b))[0] is not None and "
              "isinstance(global_map('_CONTEXTS', id(b))[0], weakref))"],
    global_maps={"_CONTEXTS": "tuple"},
    modifies=["*"],
    ensures=[],
    exsures={},  # the assertions must never fail
    domain=False,
    props=["C10"],
)
