"""Contracts for nix_manipulator/cli/main.py (C16, C07-test verdict, C08-CLI part)."""
from pvc.contract import contract, External, Loop
from pvc.types import *
import specs.cli  # noqa: F401

F = "nix_manipulator/cli/main.py"

_NS = Obj(command=Str, npath=Str, value=Str, file=Obj())
_SRC = Obj(contains_error=Bool, text=Str)

contract(
    target=f"{F}::main",
    params={"args": Opaque},
    returns=Int,
    externals={
        "build_parser": External(returns=Opaque),
        "parser.parse_args": External(
            returns=_NS, params=["args"],
            ensures=["result.command == cli_command()", "result.npath == cli_npath()", "result.value == cli_value()"],
            note="argparse delivers the sub-command and its arguments; usage errors exit in argparse itself",
        ),
        "args.file.read": External(returns=Str, ensures=["result == cli_input()"],
                                   note="-f FILE and stdin both reach main() only through args.file.read()"),
        "parse": External(returns=_SRC, params=["source_code"],
                          ensures=["result.text == source_code", "result.contains_error == lib_has_error(source_code)"]),
        "source.rebuild": External(returns=Str, ensures=["result == lib_rebuild(source.text)"]),
        "set_value": External(returns=Str, params=["source", "npath", "value"],
                              ensures=["result == lib_set(source.text, npath, value)"],
                              exsures={"ValueError": [], "KeyError": []}),
        "remove_value": External(returns=Str, params=["source", "npath"],
                                 ensures=["result == lib_rm(source.text, npath)"],
                                 exsures={"ValueError": [], "KeyError": []}),
        "code.interact": External(returns=NoneT),
        "parser.print_help": External(returns=NoneT),
    },
    ensures=[
        # test: OK / 0 exactly when the input is free of syntax errors and rebuilds to identical bytes
        "implies(cli_command() == 'test', iff(result == 0, not lib_has_error(cli_input()) and lib_rebuild(cli_input()) == cli_input()))",
        "implies(cli_command() == 'test', (result == 0 and stdout == 'OK\\n') or (result == 1 and stdout == 'Fail\\n'))",
        # set / rm: stdout is the text of the library edit, a line terminator added only when missing
        "implies(cli_command() == 'set', result == 0 and stdout == with_eol(lib_set(cli_input(), cli_npath(), cli_value())))",
        "implies(cli_command() == 'rm', result == 0 and stdout == with_eol(lib_rm(cli_input(), cli_npath())))",
        # anything that is not a known command: help on stderr, status 2, nothing on stdout
        "implies(cli_command() != 'test' and cli_command() != 'set' and cli_command() != 'rm' and cli_command() != 'shell', result == 2 and stdout == '')",
    ],
    exsures={
        # a failing edit propagates (non-zero exit through __main__) with nothing written to stdout
        "ValueError": ["stdout == ''", "cli_command() == 'set' or cli_command() == 'rm'"],
        "KeyError": ["stdout == ''", "cli_command() == 'set' or cli_command() == 'rm'"],
    },
    canaries=["result == 0"],
    domain=False,
    props=["C16", "C07", "C08"],
)
