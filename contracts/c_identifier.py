"""Identifier.value (setter): assignment through a reference (C11).  Which binding defines the name is
_resolve_identifier's answer (its scoping rules are the subject of C10's stand-in); the setter must write
*that* binding's value and nothing else of the document, and must refuse without touching anything when the
reference cannot be resolved."""
from pvc.contract import contract, External, Loop
from pvc.types import *
import specs.values  # noqa: F401

ID = "nix_manipulator/expressions/identifier.py"

contract(
    target=f"{ID}::Identifier.value.setter",
    params={"self": Ref("Identifier"), "new_value": Ref("NixExpression")},
    returns=NoneT,
    modifies=["*"],
    externals={
        "get_resolution_context": External(returns=Opt(Ref("ResolutionContext")), params=["expr"], modifies=[],
                                           note="registry lookup (resolution._get_context): no document field is written"),
        "_resolve_identifier": External(returns=Tup(Ref("NixExpression"), Ref("Binding")), params=["identifier", "scopes"], modifies=[],
                                        ensures=["result[1] is defining_binding(identifier)", "result[1] < alloc_at_entry()"],
                                        exsures={"ResolutionError": []},
                                        note="the defining binding is an object of the document; coercion of raw python values stored in "
                                             "bindings and the contexts it attaches on the way are not modelled"),
        "coerce_expression": External(returns=Ref("NixExpression"), params=["value"], fresh=True),
        "new_expr.model_copy": External(returns=Ref("NixExpression"), fresh=True, note="dataclasses.replace: a new object"),
        "set_resolution_context": External(returns=NoneT, params=["expr", "scopes"], modifies=[]),
    },
    call_asserts={
        # the old value's comments / layout stay with the binding when the new value brings none of its own
        "new_expr.model_copy": ["implies(len(new_expr.before) == 0, before is binding.value.before)",
                                "implies(len(new_expr.after) == 0, after is binding.value.after)",
                                "implies(len(new_expr.before) > 0, before is new_expr.before)",
                                "implies(len(new_expr.after) > 0, after is new_expr.after)"],
    },
    ensures=[
        # exactly one location of the document is written: the `value` of the binding that defines the name
        "heap_unchanged_except(defining_binding(self), 'value')",
        "defining_binding(self).value is not None and defining_binding(self).value >= alloc_at_entry() or defining_binding(self).value is new_value",
        # the reference itself stays in place
        "self.name == old(self.name)",
    ],
    exsures={"ResolutionError": ["heap_unchanged()"]},
    domain=False,
    props=["C11"],
)
