"""Contracts for nix_manipulator/cli/manipulations.py"""
from pvc.contract import contract, External, Loop
from pvc.types import *
import specs.nixlex  # noqa: F401
import specs.npath  # noqa: F401

M = "nix_manipulator/cli/manipulations.py"
# every edit property rests on the same edit path (resolve the target, walk / write the attrpath family, write the layers back)
EDIT_PROPS = ["C04", "C05", "C08", "C09", "C19"]


def _seg(name, quoted):
    from nix_manipulator.cli.manipulations import _NPathSegment

    return _NPathSegment(name=name, quoted=quoted)


def _names(tier):
    from harness.native import strings

    alphabet = ["a", '"', "\\", ".", "$", "{", "\n", "\r", "\t", " ", "'", "0", "é", "-", "_"]
    yield from strings(alphabet, 3 if tier == "quick" else 4)
    yield from strings(["$", "{", "}", "a", "\\"], 5)
    yield from ("if", "then", "else", "assert", "with", "let", "in", "rec", "inherit", "or", "foo-bar", "${x}", "a.b")

contract(
    target=f"{M}::_split_scope_npath",
    params={"npath": Str},
    returns=Opt(Tup(Int, Str)),
    ensures=[
        # None exactly when there is no leading '@'
        "iff(result is None, leading_ats(npath, 0))",
        # otherwise (depth, rest): depth = number of leading '@', rest = what follows, non-empty
        "implies(result is not None, result[0] >= 1 and leading_ats(npath, result[0]))",
        "implies(result is not None, result[1] == npath[result[0]:] and len(result[1]) > 0)",
    ],
    exsures={"ValueError": ["len(npath) >= 1 and leading_ats(npath, len(npath))"]},
    loops={0: Loop(invariant=["depth == _i", "at_run(npath[:_i]) == 1", "implies(_i >= 1, npath[0] == '@')"])},
    canaries=["implies(result is not None, leading_ats(npath, result[0] + 1))"],
    props=EDIT_PROPS + ["C12", "C16"],  # an `@` inside a quoted name is part of the name (C12); too-deep selectors are errors (C16)
)

_NP_INV = [
    # the program state mirrors the grammar automaton after the prefix read so far
    "np_mode(npath[:_i]) != NP_FAIL",
    "iff(in_quotes and escape, np_mode(npath[:_i]) == NP_QE)",
    "iff(in_quotes and not escape, np_mode(npath[:_i]) == NP_Q)",
    "iff(not in_quotes and quoted_segment, np_mode(npath[:_i]) == NP_A)",
    "iff(not in_quotes and not quoted_segment, np_mode(npath[:_i]) == NP_B)",
    "implies(escape, in_quotes)",
    "implies(in_quotes, not quoted_segment)",
    "''.join(buffer) == np_cur(npath[:_i])",
    "iff(len(buffer) > 0, ''.join(buffer) != '')",
    "segments == np_segs(npath[:_i])",
]

contract(
    target=f"{M}::_parse_npath",
    params={"npath": Str},
    returns=SeqOf("_NPathSegment"),
    ensures=["np_accepts(npath)", "result == np_result(npath)"],
    exsures={"ValueError": ["not np_accepts(npath)"]},
    locals={"buffer": StrJoin, "segments": SeqOf("_NPathSegment")},
    loops={0: Loop(invariant=_NP_INV)},
    canaries=["len(result) == 0"],
    props=["C12", "C05", "C08"],
)

contract(
    target=f"{M}::_format_attr_name",
    params={"segment": Rec("_NPathSegment")},
    returns=Str,
    ensures=["attr_spelling(result, segment.name, segment.quoted)"],
    exsures={},
    canaries=["result == segment.name"],
    domain=lambda tier: ({"segment": _seg(n, q)} for n in _names(tier) for q in (False, True)),
    props=["C12", "C05"],
)

# ---------------------------------------------------------------------------------------------
# lookups over lists of bindings (heap)
import specs.heapspec  # noqa: E402,F401


def _values_domain(extra):
    def gen(tier):
        from nix_manipulator import parse

        texts = ["{ }", "{ a = 1; }", "{ a = 1; b = 2; a' = 3; }", "{ a.b = 1; c = 2; }", "{ inherit a; b = 2; }", '{ "a" = 1; a = 2; }',
                 "{ a.b = 1; a = { c = 2; }; }"]
        for t in texts:
            for key in ["a", "b", "c", "zz", '"a"', ""]:
                s = parse(t).expr
                yield extra(s, key)

    return gen


contract(
    target=f"{M}::_find_binding",
    params={"target_set": Ref("AttributeSet"), "key": Str},
    returns=Opt(Ref("Binding")),
    ensures=["result is first_binding(target_set.values, key)", "heap_unchanged()"],
    domain=lambda tier: _values_domain(lambda s, k: {"target_set": s, "key": k})(tier),
    props=["C05", "C12", "C14", "C08", "C04", "C19"],
)

contract(
    target=f"{M}::_find_attrpath_root",
    params={"target_set": Ref("AttributeSet"), "root": Str},
    returns=Opt(Ref("Binding")),
    ensures=["result is first_binding(target_set.values, root, True)", "heap_unchanged()"],
    loops={0: Loop(invariant=["all(not (isinstance(target_set.values[j], Binding) and target_set.values[j].nested and "
                              "target_set.values[j].name == root) for j in range(_i))"])},
    domain=lambda tier: _values_domain(lambda s, k: {"target_set": s, "root": k})(tier),
    props=["C05", "C12", "C14", "C08", "C04", "C19"],
)

contract(
    target=f"{M}::_find_named_binding",
    params={"values": ListRef(), "key": Str, "nested": OneOf(NoneT, Lit(True), Lit(False))},
    returns=Opt(Ref("Binding")),
    ensures=["result is first_binding(values, key, nested)", "heap_unchanged()"],
    loops={0: Loop(invariant=[
        "all(not (isinstance(values[j], Binding) and values[j].name == key and (nested is None or values[j].nested == nested)) "
        "for j in range(_i))"])},
    domain=False,
    props=["C05", "C12", "C14", "C08", "C04", "C19"],
)

# ---------------------------------------------------------------------------------------------
# set_value / remove_value: selector arithmetic, validation order (C09, C07, C08).  The helpers they
# call are used through assumed contracts here (listed in the evidence); what is *proved* about the
# real code of set_value/remove_value is: the addressed layer is layers[len(layers) - depth], a
# selector deeper than the existing layers raises ValueError before any layer is touched, layer
# creation happens only for depth 1 on a document without layers, the value is exactly one non-raw
# expression before anything is edited, no IndexError/AttributeError can escape, and only
# ValueError/KeyError are raised.

_EDIT_EXT = {
    "parse": External(returns=Ref("NixSourceCode"), params=["source_code"], allocates=True),
    "_resolve_target_set": External(returns=Ref("AttributeSet"), params=["source"], exsures={"ValueError": []},
                                    ensures=["all(result.scope_state.stack[j] is not None and result.scope_state.stack[j].scope is not None and "
                                             "len(result.scope_state.stack[j].scope) > 0 for j in range(len(result.scope_state.stack)))"],
                                    note="type invariant of ScopeState.stack (list of layer dicts with non-empty scopes) assumed"),
    "_format_npath_segments": External(returns=SeqOf("str"), params=["npath"], exsures={"ValueError": []}),
    "_path_exists_in_attrset": External(returns=Bool, params=["target_set", "segments"]),
    "_set_value_in_attrset": External(returns=NoneT, params=["target_set", "npath", "value_expr"], modifies=["*"],
                                      exsures={"ValueError": [], "KeyError": []}),
    "_remove_value_in_attrset": External(returns=NoneT, params=["target_set", "npath"], modifies=["*"], preserves=["layers[]"],
                                         exsures={"ValueError": [], "KeyError": []}),
    "_remove_attrpath_value": External(returns=NoneT, params=["target_set", "segments"], modifies=["*"],
                                       exsures={"ValueError": [], "KeyError": []}),
    "_write_scope_layers": External(returns=NoneT, params=["expr", "layers"], modifies=["*"]),
    "_resolve_npath": External(returns=Obj(target_set=Ref("AttributeSet"), segments=SeqOf("str"), attrpath_leaf=Ref("Binding"), attrpath_root=Ref("Binding")),
                               params=["source", "npath"], exsures={"ValueError": []}),
    "_resolve_npath_parent": External(returns=Tup(Ref("AttributeSet"), Str), params=["target_set", "npath"], modifies=["*"],
                                      exsures={"ValueError": [], "KeyError": []}),
    "source.rebuild": External(returns=Str),
}

_VALID_VALUE = "len(parsed_value.expressions) == 1 and not isinstance(parsed_value.expressions[0], RawExpression)"

contract(
    target=f"{M}::set_value",
    params={"source": Ref("NixSourceCode"), "npath": Str, "value": Str},
    returns=Str,
    externals=dict(_EDIT_EXT, **{"_set_value_in_attrset#1": External(
        returns=NoneT, params=["target_set", "npath", "value_expr"], modifies=["*"], preserves=["layers[]"],
        exsures={"ValueError": [], "KeyError": []})}),
    modifies=["*"],
    call_asserts={
        # C07: what is checked for well-formedness is the VALUE text itself, not a cleaned-up copy of it
        "parse#0": ["source_code == value"],
        # C07: nothing is resolved or edited before the value is known to be exactly one non-raw expression
        "_resolve_target_set": [_VALID_VALUE, "len(source.expressions) == 1"],
        "_resolve_npath": [_VALID_VALUE, "len(source.expressions) == 1"],
        "_set_value_in_attrset": ["value_expr is parsed_value.expressions[0]"],
        # the body of the attribute set is edited through a scoped path only on a document without any let layer (the pinned
        # shortcut); as soon as a layer exists, `@name` writes a layer, never the body (C09: "the attribute set body keeps its text")
        "_set_value_in_attrset#0": ["len(layers) == 0 and depth == 1", "target_set is target_expr"],
        # C09: `@`xd addresses layers[len(layers) - d]; the attrset handed to the edit wraps exactly that layer's scope
        "_set_value_in_attrset#1": ["depth >= 1 and depth <= len(layers)", "target_set.values is layers[len(layers) - depth].scope",
                                    "target_set.attrpath_order is layers[len(layers) - depth].attrpath_order"],
        # a layer is created only for depth 1 on a target without layers (checked where the layers are written back)
        "_write_scope_layers": ["depth >= 1 and depth <= len(layers)"],
    },
    ensures=[],
    exsures={"ValueError": [], "KeyError": []},
    domain=False,
    props=EDIT_PROPS + ["C07", "C16"],
)

contract(
    target=f"{M}::remove_value",
    params={"source": Ref("NixSourceCode"), "npath": Str},
    returns=Str,
    externals=dict(_EDIT_EXT, **{"rebuilt.rstrip": External(returns=Str),
                                 # the unscoped call (no layer list to preserve)
                                 "_remove_value_in_attrset#1": External(returns=NoneT, params=["target_set", "npath"], modifies=["*"],
                                                                        exsures={"ValueError": [], "KeyError": []})}),
    modifies=["*"],
    call_asserts={
        "_resolve_target_set": ["len(source.expressions) == 1"],
        "_resolve_npath": ["len(source.expressions) == 1"],
        "_remove_value_in_attrset#1": ["target_set is resolution.target_set and npath == caller_npath"],
        "_remove_value_in_attrset#0": ["depth >= 1 and depth <= len(layers)", "layer_index == len(layers) - depth",
                                     "target_set.values is layers[len(layers) - depth].scope",
                                     "target_set.attrpath_order is layers[len(layers) - depth].attrpath_order"],
        # pruning removes exactly the layer that was addressed, and only when it became empty
        "_write_scope_layers": ["implies(removed_layer is not None, removed_layer is target_layer and len(target_layer.scope) == 0)"],
    },
    exsures={"ValueError": [], "KeyError": []},
    loops={0: Loop(invariant=["True"], modifies=["source.trailing[]"])},
    domain=False,
    props=EDIT_PROPS + ["C16"],  # "exit 0 only on success": which edits the library refuses is what the CLI reports
)

contract(
    target=f"{M}::_collect_scope_layers",
    params={"expr": Ref("AttributeSet")},
    returns=ListRef(),
    entry_closure=True,
    modifies=[],
    # type invariant of ScopeState.stack: layer dicts whose scope is non-empty (NixExpression.__post_init__ drops the others)
    requires=["all(expr.scope_state.stack[j] is not None and expr.scope_state.stack[j].scope is not None and "
              "len(expr.scope_state.stack[j].scope) > 0 for j in range(len(expr.scope_state.stack)))"],
    ensures=[
        "result is not None",
        # one layer per let block, outermost first, each carrying ITS OWN scope list and `let # comment`
        "implies(len(expr.scope) > 0, len(result) == 1 + len(expr.scope_state.stack) and "
        "result[0].after_let_comment is expr.scope_state.after_let_comment)",
        "implies(len(expr.scope) > 0, all(result[j + 1].scope is expr.scope_state.stack[j].scope and "
        "result[j + 1].after_let_comment is expr.scope_state.stack[j].after_let_comment for j in range(len(expr.scope_state.stack))))",
        "implies(len(expr.scope) == 0, len(result) == len(expr.scope_state.stack))",
        "implies(len(expr.scope) == 0, all(result[j].scope is expr.scope_state.stack[j].scope and "
        "result[j].after_let_comment is expr.scope_state.stack[j].after_let_comment for j in range(len(expr.scope_state.stack))))",
        # a fresh list of (fresh) layer dicts ...
        "all(result[j] is not None and isinstance(result[j], dict) for j in range(len(result)))",
        # ... outermost first: the expression's own `scope` is layer 0 whenever it is non-empty
        "implies(len(expr.scope) > 0, len(result) >= 1 and result[0].scope is expr.scope)",
        "implies(len(expr.scope) == 0 and len(expr.scope_state.stack) == 0, len(result) == 0)",
        # ... and nothing of the document is modified
        "heap_unchanged()",
    ],
    loops={0: Loop(invariant=[
        "all(layers[j] is not None and isinstance(layers[j], dict) for j in range(len(layers)))",
        "implies(len(expr.scope) > 0, len(layers) >= 1 and layers[0].scope is expr.scope)",
        "implies(len(expr.scope) == 0, len(layers) == _i)",
        "implies(len(expr.scope) > 0, len(layers) == _i + 1 and layers[0].after_let_comment is expr.scope_state.after_let_comment)",
        "implies(len(expr.scope) > 0, all(layers[j + 1].scope is expr.scope_state.stack[j].scope and "
        "layers[j + 1].after_let_comment is expr.scope_state.stack[j].after_let_comment for j in range(_i)))",
        "implies(len(expr.scope) == 0, all(layers[j].scope is expr.scope_state.stack[j].scope and "
        "layers[j].after_let_comment is expr.scope_state.stack[j].after_let_comment for j in range(_i)))",
        "layers >= alloc_at_entry()",
    ], modifies=["layers[]"])},
    domain=False,
    props=EDIT_PROPS + ["C14"],  # the scope mapping of C14 is this container: it must stay the same object
)

# ---------------------------------------------------------------------------------------------
# attrpath-derived bindings (`a.b.c = v;`): the walk that finds the chain of (set, binding) pairs for a path, and the
# removal built on it (C05, C04).  The view of the result: stack[k] = (S_k, B_k) with S_0 the target set, B_k the first
# binding of S_k named segments[k] that is nested (the leaf: `leaf_nested`), and S_{k+1} = B_k.value.

_STACK_SHAPE = [
    "all(stack[k] is not None and isinstance(stack[k], tuple) and isinstance(stack[k][0], AttributeSet) and isinstance(stack[k][1], Binding) "
    "for k in range(len(stack)))",
    "stack[0][0] is target_set",
    "all(stack[k][1] is first_binding(stack[k][0].values, segments[k], True) for k in range(len(stack) - 1))",
    "all(stack[k + 1][0] is stack[k][1].value for k in range(len(stack) - 1))",
]

contract(
    target=f"{M}::_walk_attrpath_stack",
    params={"target_set": Ref("AttributeSet"), "segments": ArrOf("str"), "leaf_nested": Bool, "require_root": OneOf(Lit(True), Lit(False))},
    returns=Opt(ListRef("tuple")),
    locals={"stack": ListRef("tuple")},
    entry_closure=True,
    modifies=[],
    ensures=[
        "heap_unchanged()",
        "implies(require_root, result is not None)",
        "implies(result is not None, len(segments) >= 2 and len(result) == len(segments))",
    ] + ["implies(result is not None, " + c.replace("stack", "result") + ")" for c in _STACK_SHAPE] + [
        "implies(result is not None, result[len(result) - 1][1] is "
        "first_binding(result[len(result) - 1][0].values, segments[len(segments) - 1], leaf_nested))",
        "implies(result is not None, result >= alloc_at_entry())",
        # the pairs refer to objects of the document, not to copies
        "implies(result is not None, all(result[k][0] < alloc_at_entry() and result[k][1] < alloc_at_entry() for k in range(len(result))))",
    ],
    exsures={"KeyError": ["require_root", "heap_unchanged()"], "ValueError": ["require_root", "heap_unchanged()"]},
    loops={0: Loop(invariant=[
        "len(stack) == _i + 1 and len(stack) <= len(segments) - 1",
        "stack >= alloc_at_entry()",
        "isinstance(current, AttributeSet) and current < alloc_at_entry()",
        "all(stack[k][0] < alloc_at_entry() and stack[k][1] < alloc_at_entry() for k in range(len(stack)))",
        "current is stack[len(stack) - 1][1].value",
        "stack[len(stack) - 1][1] is first_binding(stack[len(stack) - 1][0].values, segments[len(stack) - 1], True)",
    ] + _STACK_SHAPE, modifies=["stack[]"])},
    domain=False,
    props=EDIT_PROPS + ["C14"],
)

contract(
    target=f"{M}::_remove_attrpath_value",
    params={"target_set": Ref("AttributeSet"), "segments": ArrOf("str")},
    returns=NoneT,
    entry_closure=True,
    modifies=["*"],
    call_asserts={
        # what is removed is exactly what the walk found: the leaf from its own parent ...
        "parent_set.values.remove#0": [
            "parent_set is stack[len(stack) - 1][0] and arg0 is stack[len(stack) - 1][1]",
            "arg0 is first_binding(parent_set.values, segments[len(segments) - 1], False)",
        ],
        # ... the entry of the rendering order that carries *this* leaf object (identity, not equality) ...
        "del target_set.attrpath_order": ["isinstance(item, _AttrpathEntry) and item.binding is leaf_binding",
                                          "target_set.attrpath_order[index] is item"],
        # ... and, walking outwards, only ancestors that have just become empty
        "parent_set.values.remove#1": ["isinstance(arg0.value, AttributeSet) and len(arg0.value.values) == 0"],
    },
    ensures=[],
    # a path that does not resolve is refused before anything is touched (C08).  ValueError can also come from list.remove in the
    # pruning loop if a set on the path shared its `values` list with another one (no ownership invariant is assumed here), so
    # nothing is claimed for it.
    exsures={"KeyError": ["heap_unchanged()"], "ValueError": []},
    loops={
        0: Loop(invariant=["True"], modifies=["target_set.attrpath_order[]"]),
        1: Loop(invariant=["True"], modifies=["<entry-lists>[]"]),
    },
    domain=False,
    props=EDIT_PROPS + ["C14"],
)

contract(
    target=f"{M}::_set_attrpath_value",
    params={"target_set": Ref("AttributeSet"), "root": Ref("Binding"), "segments": ArrOf("str"), "value_expr": Ref("NixExpression")},
    returns=NoneT,
    requires=["len(segments) >= 2", "root is not None and value_expr is not None"],
    entry_closure=True,
    modifies=["*"],
    externals={"_AttrpathEntry": External(returns=Ref("_AttrpathEntry"), fresh=True, params=["segments", "binding"],
                                          ensures=["result.binding is binding"],
                                          note="constructor of the frozen order entry (its `segments` tuple is not modelled here)")},
    call_asserts={
        # what is appended as the new leaf: a plain (non-nested) binding of the last segment holding exactly the given value
        "current.values.append#1": ["arg0.name == segments[len(segments) - 1] and arg0.value is value_expr and not arg0.nested"],
        # intermediate levels that had to be created: an empty nested set under the segment's name
        "current.values.append#0": ["arg0.name == seg and arg0.nested and isinstance(arg0.value, AttributeSet) and len(arg0.value.values) == 0"],
        "target_set.attrpath_order.append": ["arg0.binding is new_binding"],
    },
    # set never removes or reorders anything, and the only field of an existing object it may write is a binding's `value`
    ensures=['heap_unchanged("value", "lists-grow")'],
    # a refused edit has touched nothing: intermediate sets are only created on the way to a spot where nothing can fail any more (C08)
    exsures={"ValueError": ["heap_unchanged()"]},
    loops={0: Loop(invariant=[
        "isinstance(current, AttributeSet)",
        "heap_unchanged() or (current >= alloc_at_entry() and len(current.values) == 0)",
        'heap_unchanged("lists-grow")',
    ], modifies=["<entry-lists>[]"])},
    domain=False,
    props=EDIT_PROPS + ["C14"],
)

# writing the edited layers back: the expression's own scope / state describe the OUTERMOST layer (layers[0]); with no
# layer left the expression has no scope at all.  (The inner layers go through a list comprehension, which pvc only
# over-approximates: their content is covered by the bounded stand-in of C09.)
contract(
    target=f"{M}::_write_scope_layers",
    params={"expr": Ref("AttributeSet"), "layers": ListRef(), "restored_layer": OneOf(NoneT, Ref("ScopeLayer"))},
    returns=NoneT,
    modifies=["*"],
    requires=["all(layers[j] is not None and isinstance(layers[j], dict) and layers[j].scope is not None and isinstance(layers[j].scope, Scope) "
              "for j in range(len(layers)))"],
    ensures=[
        "implies(len(layers) == 0, len(expr.scope) == 0 and len(expr.scope_state.stack) == 0 and expr.scope >= alloc_at_entry())",
        "implies(len(layers) > 0, expr.scope is layers[0].scope)",
        "implies(len(layers) > 0, expr.scope_state.after_let_comment is layers[0].after_let_comment)",
        # the layer dicts handed in are not written
        "all(layers[j].scope is old(layers[j].scope) and layers[j].after_let_comment is old(layers[j].after_let_comment) for j in range(len(layers)))",
    ],
    domain=False,
    props=EDIT_PROPS + ["C14"],  # the scope mapping of C14 is this container: it must stay the same object
)

# ---------------------------------------------------------------------------------------------
# attrpath families inside explicitly written nested sets (`m = { x.y = 1; };`): the walk down to the set that holds the rest of
# the path in attrpath form (added by the fix for `set m.x.z` / `rm m.x.y`, which used to succeed without changing the text)
contract(
    target=f"{M}::_find_attrpath_family",
    params={"target_set": Ref("AttributeSet"), "segments": ArrOf("str")},
    returns=Opt(Tup(Ref("AttributeSet"), Ref("Binding"), ArrOf("str"))),
    entry_closure=True,
    modifies=[],
    ensures=[
        "heap_unchanged()",
        # the set handed back is one of the document, its family root is the first nested binding called like the first remaining segment
        "implies(result is not None, result[0] is not None and result[0] < alloc_at_entry() and len(result[2]) >= 1)",
        "implies(result is not None, result[1] is not None and result[1] is first_binding(result[0].values, result[2][0], True))",
        # the remaining path is a suffix of the path that was asked for
        "implies(result is not None, len(result[2]) <= len(segments) and "
        "all(result[2][j] == segments[len(segments) - len(result[2]) + j] for j in range(len(result[2]))))",
        # no family found: the set asked has no family root called like the first segment, and a one-segment path is answered
        # from that set alone (first level of the None case; the deeper levels need nested views, which the solvers reject)
        "implies(result is None and len(segments) >= 1, first_binding(target_set.values, segments[0], True) is None)",
        # a family of the set asked itself is found there, with the whole path left over
        "implies(len(segments) >= 1 and first_binding(target_set.values, segments[0], True) is not None, "
        "result is not None and result[0] is target_set and len(result[2]) == len(segments))",
    ],
    loops={0: Loop(invariant=["isinstance(current, AttributeSet) and current < alloc_at_entry()",
                              "implies(_i == 0, current is target_set)",
                              "implies(_i > 0, first_binding(target_set.values, segments[0], True) is None)"])},
    domain=False,
    props=EDIT_PROPS + ["C14"],
)

_FAMILY_EXT = External(
    returns=Opt(Tup(Ref("AttributeSet"), Ref("Binding"), ArrOf("str"))), params=["target_set", "segments"],
    ensures=["heap_unchanged()",
             "implies(result is not None, result[0] is not None and len(result[2]) >= 1 and len(result[2]) <= len(segments))",
             "implies(result is not None, result[1] is not None and result[1] is first_binding(result[0].values, result[2][0], True))",
             "implies(result is None and len(segments) >= 1, first_binding(target_set.values, segments[0], True) is None)",
             # representation invariant of the AttributeSet handed back (assumed for every set of the document)
             "implies(result is not None, result[0].values is not result[0].attrpath_order and distinct_elems(result[0].values) and "
             "distinct_elems(result[0].attrpath_order))"],
    note="proved separately (contract _find_attrpath_family); used through its postcondition because the tuple mixes references and a sequence")

# ---------------------------------------------------------------------------------------------
# the walk to the parent set of a path through explicitly written nested sets (optionally creating the missing ones).  Proved on the
# real code, against the verified lookup contract of AttributeSet.__getitem__ (c_set.py): without `create_missing` nothing is written; every
# refusal (ValueError: a non-set on the path; KeyError: a missing segment) leaves the heap untouched - once a set had to be created
# the walk continues inside fresh, empty sets where nothing can be refused any more; what is created is an empty set under a name
# the current set does not bind; the set handed back is well-formed.  (That old lists only ever grow at their end is NOT proved:
# the induction over the loop times out; the `set` dispatcher keeps that clause as an assumption.)
contract(
    target=f"{M}::_resolve_npath_parent",
    params={"target_set": Ref("AttributeSet"), "npath": Str, "create_missing": Bool},
    returns=Tup(Ref("AttributeSet"), Str),
    entry_closure=True,
    requires=["target_set.values is not target_set.attrpath_order", "distinct_elems(target_set.values)", "distinct_elems(target_set.attrpath_order)"],
    modifies=["*"],
    ensures=["result[0] is not None", "implies(not create_missing, heap_unchanged())",
             # without creation the parent handed back is a set of the document itself, never a copy (an edit made in it is seen)
             "implies(not create_missing, result[0] < alloc_at_entry())",
             # ... and in any case either a set of the document or one created on the way, which is then empty
             "result[0] < alloc_at_entry() or len(result[0].values) == 0",
             "result[0].values is not result[0].attrpath_order and distinct_elems(result[0].values) and distinct_elems(result[0].attrpath_order)"],
    call_asserts={
        # what is created on the way: an empty set under a name the current set does not bind yet
        "AttributeSet.__setitem__": ["create_missing", "first_binding(self.values, key) is None",
                                     "isinstance(value, AttributeSet) and value >= alloc_at_entry() and len(value.values) == 0"],
    },
    exsures={"ValueError": ["heap_unchanged()"], "KeyError": ["heap_unchanged()", "not create_missing"]},
    loops={0: Loop(invariant=["isinstance(current, AttributeSet)",
                              "current.values is not current.attrpath_order and distinct_elems(current.values) and distinct_elems(current.attrpath_order)",
                              "implies(not create_missing, heap_unchanged())",
                              "implies(not create_missing, current < alloc_at_entry())",
                              "current < alloc_at_entry() or len(current.values) == 0",
                              # until a set has to be created nothing is written; from then on the walk is inside fresh, empty sets (nothing can be
                              # refused any more) and the only old lists that changed have grown at their end
                              "heap_unchanged() or current >= alloc_at_entry()",
                              "heap_unchanged() or len(current.values) == 0",
                              "heap_unchanged() or (current.values >= alloc_at_entry() and current.attrpath_order >= alloc_at_entry())",
                              ], modifies=["*"])},
    domain=False,
    props=EDIT_PROPS + ["C14"],
)

# ---------------------------------------------------------------------------------------------
# the dispatcher of `rm` inside one attribute set: which of the three removal routes is taken is decided from two lookups, and
# nothing is written before the route that was chosen writes (C08: a refused removal leaves the document as it was; C05: a
# path is refused only because a key is missing, not because of the form it was written in).
contract(
    target=f"{M}::_find_attrpath_leaf",
    params={"target_set": Ref("AttributeSet"), "segments": ArrOf("str")},
    returns=Opt(Ref("Binding")),
    entry_closure=True,
    modifies=[],
    ensures=[
        "heap_unchanged()",
        "implies(len(segments) < 2, result is None)",
        # a binding of the document (not a copy)
        "implies(result is not None, result < alloc_at_entry())",
        # the leaf of the family: a binding with a value of its own, called like the last segment
        "implies(result is not None, not result.nested and result.name == segments[len(segments) - 1])",
    ],
    domain=False,
    props=EDIT_PROPS + ["C14"],
)

contract(
    target=f"{M}::_remove_value_in_attrset",
    params={"target_set": Ref("AttributeSet"), "npath": Str},
    returns=NoneT,
    entry_closure=True,
    # representation invariant of AttributeSet (two different lists, no object twice in either)
    requires=["target_set.values is not target_set.attrpath_order", "distinct_elems(target_set.values)",
              "distinct_elems(target_set.attrpath_order)"],
    modifies=["*"],
    externals={
        "_format_npath_segments": External(returns=ArrOf("str"), params=["npath"], exsures={"ValueError": []},
                                           note="proved separately for its text (C12); here only: a pure function of the path"),
        "_find_attrpath_family": _FAMILY_EXT,
    },
    call_asserts={
        # route 1: the full path is written in attrpath form
        "_remove_attrpath_value#0": ["attrpath_leaf is not None", "target_set is caller_target_set and segments == caller_segments"],
        # route 2: a plain key of this set - never a root that exists only through `root.x = ...` members
        "del target_set": ["len(segments) == 1 and key == segments[0]", "attrpath_root is None",
                           "binding is not None and binding is first_binding(target_set.values, key)"],
        # route 3: a deeper member of an attrpath family reached through explicit sets
        "_remove_attrpath_value#1": ["attrpath_leaf is None and attrpath_root is not None and len(segments) >= 2",
                                     "target_set is caller_target_set and segments == caller_segments"],
        # route 4: the rest of the path is an attrpath family inside an explicitly written nested set; the root of such a family
        # has no binding of its own to remove
        "_remove_attrpath_value#2": ["attrpath_leaf is None and attrpath_root is None and family is not None and len(rest) >= 2",
                                     "target_set is family_set and segments == rest"],
        # route 5: explicit nested sets all the way; the parent is looked up without creating anything
        "_resolve_npath_parent": ["attrpath_leaf is None and attrpath_root is None and family is None and len(segments) >= 2", "not create_missing",
                                  "target_set is caller_target_set and npath == caller_npath"],
    },
    ensures=[],
    # a removal that is refused for a missing key has not touched the document
    exsures={"KeyError": ["heap_unchanged()"], "ValueError": []},
    domain=False,
    props=EDIT_PROPS + ["C14"],
)

# ---------------------------------------------------------------------------------------------
# the dispatcher of `set` inside one attribute set.  Proved on the real code: which route writes is decided by the two attrpath
# lookups and the path length; a new key is only ever added where no binding of that name exists and the name is not the root of
# an attrpath family; `set` never removes or reorders anything and, in objects that already existed, writes nothing but the
# `value` of a binding (lists only grow at their end); every refusal with ValueError leaves the document untouched (C08);
# no AttributeError / IndexError can escape.  Assumed: the nested closure `_assign_through_identifier` (its effect is the proved
# contract of Identifier.value's setter: one `value` written, or nothing when the reference does not resolve) and
# `_resolve_npath_parent` (creates missing sets at the end of `values` lists, touches nothing else, refuses without writing).
contract(
    target=f"{M}::_set_value_in_attrset",
    params={"target_set": Ref("AttributeSet"), "npath": Str, "value_expr": Ref("NixExpression"), "let_bindings": OneOf(NoneT, ListRef("Binding"))},
    returns=NoneT,
    entry_closure=True,
    requires=["target_set.values is not target_set.attrpath_order", "distinct_elems(target_set.values)", "distinct_elems(target_set.attrpath_order)", "value_expr is not None",
              "implies(let_bindings is not None, all(let_bindings[j] is not None for j in range(len(let_bindings))))"],
    modifies=["*"],
    externals={
        "_format_npath_segments": External(returns=ArrOf("str"), params=["npath"], exsures={"ValueError": []}),
        "_resolve_npath_parent": External(returns=Tup(Ref("AttributeSet"), Str), params=["target_set", "npath", "create_missing"], modifies=["*"], preserves=["let_bindings[]"],
                                          ensures=['heap_unchanged("lists-grow")', "result[0] is not None", "result[0].values is not result[0].attrpath_order", "distinct_elems(result[0].values)", "distinct_elems(result[0].attrpath_order)"],
                                          exsures={"ValueError": ["heap_unchanged()"], "KeyError": ["heap_unchanged()"]}),
        "_assign_through_identifier": External(returns=Bool, params=["identifier"], modifies=["*"],
                                               ensures=["implies(not result, heap_unchanged())", 'heap_unchanged("value")'],
                                               note="nested closure: scopes_for_owner + Identifier.value setter (proved separately: writes one binding's "
                                                    "`value`, nothing on ResolutionError); set_resolution_context touches the registry only"),
        "_resolve_inherited_binding": External(returns=Ref("Binding"), params=["target_set"]),
        "_find_attrpath_family": _FAMILY_EXT,
        "_segment_name": External(returns=Str, params=["segment"]),
    },
    call_asserts={
        "AttributeSet.__setitem__": ["value is value_expr", "attrpath_leaf is None and attrpath_root is None", "first_binding(self.values, key) is None"],
        # every direct write stores exactly the given expression, and never into a binding that exists only as the root / an inner
        # node of an attrpath family (`nested`): those have no value of their own to replace
        "attrpath_leaf.value =": ["stored is value_expr", "not attrpath_leaf.nested"],
        "binding.value =": ["stored is value_expr", "not binding.nested", "binding is first_binding(target_set.values, segments[0])"],
        "existing_binding.value =": ["stored is value_expr", "not existing_binding.nested", "existing_binding is first_binding(parent_set.values, final_key)"],
        "outer.value =": ["stored is value_expr"],
        "sibling_binding.value =": ["stored is value_expr"],
        "inherited_binding.value =": ["stored is value_expr"],
        "_set_attrpath_value#0": ["attrpath_leaf is None and attrpath_root is not None and len(segments) >= 2",
                                  "target_set is caller_target_set and root is attrpath_root and segments == caller_segments and value_expr is caller_value_expr"],
        # the same one level (or more) further down, in the nested set that holds the family
        "_set_attrpath_value#1": ["attrpath_leaf is None and attrpath_root is None and family is not None and len(rest) >= 2 and family_leaf is None",
                                  "target_set is family_set and root is family_root and segments == rest and value_expr is caller_value_expr"],
        "family_leaf.value =": ["stored is value_expr", "not family_leaf.nested"],
        "_resolve_npath_parent": ["attrpath_leaf is None and attrpath_root is None and family is None and len(segments) >= 2", "create_missing",
                                  "target_set is caller_target_set and npath == caller_npath"],
    },
    loops={0: Loop(invariant=["True"]), 1: Loop(invariant=["True"]), 2: Loop(invariant=["True"])},
    ensures=['heap_unchanged("value", "lists-grow")'],
    exsures={"KeyError": [], "ValueError": ["heap_unchanged()"]},
    domain=False,
    # (not listed for C09, which claims `proof`: the clause `not existing_binding.nested` is false on the unchanged tree - an attrpath
    # family inside an explicitly written nested set, `m = { x.y = 1; }; set m.x 5` - and stays undecided; see known findings)
    props=["C04", "C05", "C08", "C19", "C11"],
)

# existence test used by `set` to decide whether a scoped path addresses the body (the pinned shortcut): a pure walk
contract(
    target=f"{M}::_path_exists_in_attrset",
    params={"target_set": Ref("AttributeSet"), "segments": ArrOf("str")},
    returns=Bool,
    entry_closure=True,
    modifies=[],
    ensures=[
        "heap_unchanged()",
        "implies(len(segments) == 0, not result)",
        # a one-segment path exists exactly when the set binds that name itself (not merely as the root of an attrpath family)
        "implies(len(segments) == 1, iff(result, first_binding(target_set.values, segments[0], False) is not None))",
    ],
    # (the iteration that reaches the last segment always returns: the loop is never left through its end on a non-empty path)
    loops={0: Loop(invariant=["isinstance(current, AttributeSet)", "implies(_i == 0, current is target_set)",
                              "implies(len(segments) > 0, _i < len(segments))"])},
    domain=False,
    props=EDIT_PROPS,
)
