"""Contracts for nix_manipulator/cli/manipulations.py"""
from pvc.contract import contract, Loop
from pvc.types import *
import specs.nixlex  # noqa: F401
import specs.npath  # noqa: F401

M = "nix_manipulator/cli/manipulations.py"

contract(
    target=f"{M}::_split_scope_npath",
    params={"npath": Str},
    returns=Opt(Tup(Int, Str)),
    ensures=[
        # None exactly when there is no leading '@'
        "iff(result is None, leading_ats(npath, 0))",
        # otherwise (depth, rest): depth = number of leading '@', rest = what follows, non-empty
        "implies(result is not None, result[0] >= 1 and leading_ats(npath, result[0]))",
        "implies(result is not None, result[1] == npath[result[0]:] and len(result[1]) > 0)",
    ],
    exsures={"ValueError": ["len(npath) >= 1 and leading_ats(npath, len(npath))"]},
    loops={0: Loop(invariant=["depth == _i", "at_run(npath[:_i]) == 1", "implies(_i >= 1, npath[0] == '@')"])},
    canaries=["implies(result is not None, leading_ats(npath, result[0] + 1))"],
    props=["C09", "C08"],
)
