"""Contracts for nix_manipulator/cli/manipulations.py"""
from pvc.contract import contract, Loop
from pvc.types import *
import specs.nixlex  # noqa: F401
import specs.npath  # noqa: F401

M = "nix_manipulator/cli/manipulations.py"


def _seg(name, quoted):
    from nix_manipulator.cli.manipulations import _NPathSegment

    return _NPathSegment(name=name, quoted=quoted)


def _names(tier):
    from harness.native import strings

    alphabet = ["a", '"', "\\", ".", "$", "{", "\n", "\r", "\t", " ", "'", "0", "é", "-", "_"]
    yield from strings(alphabet, 3 if tier == "quick" else 4)
    yield from ("if", "then", "else", "assert", "with", "let", "in", "rec", "inherit", "or", "foo-bar", "${x}", "a.b")

contract(
    target=f"{M}::_split_scope_npath",
    params={"npath": Str},
    returns=Opt(Tup(Int, Str)),
    ensures=[
        # None exactly when there is no leading '@'
        "iff(result is None, leading_ats(npath, 0))",
        # otherwise (depth, rest): depth = number of leading '@', rest = what follows, non-empty
        "implies(result is not None, result[0] >= 1 and leading_ats(npath, result[0]))",
        "implies(result is not None, result[1] == npath[result[0]:] and len(result[1]) > 0)",
    ],
    exsures={"ValueError": ["len(npath) >= 1 and leading_ats(npath, len(npath))"]},
    loops={0: Loop(invariant=["depth == _i", "at_run(npath[:_i]) == 1", "implies(_i >= 1, npath[0] == '@')"])},
    canaries=["implies(result is not None, leading_ats(npath, result[0] + 1))"],
    props=["C09", "C08"],
)

_NP_INV = [
    # the program state mirrors the grammar automaton after the prefix read so far
    "np_mode(npath[:_i]) != NP_FAIL",
    "iff(in_quotes and escape, np_mode(npath[:_i]) == NP_QE)",
    "iff(in_quotes and not escape, np_mode(npath[:_i]) == NP_Q)",
    "iff(not in_quotes and quoted_segment, np_mode(npath[:_i]) == NP_A)",
    "iff(not in_quotes and not quoted_segment, np_mode(npath[:_i]) == NP_B)",
    "implies(escape, in_quotes)",
    "implies(in_quotes, not quoted_segment)",
    "''.join(buffer) == np_cur(npath[:_i])",
    "iff(len(buffer) > 0, ''.join(buffer) != '')",
    "segments == np_segs(npath[:_i])",
]

contract(
    target=f"{M}::_parse_npath",
    params={"npath": Str},
    returns=SeqOf("_NPathSegment"),
    ensures=["np_accepts(npath)", "result == np_result(npath)"],
    exsures={"ValueError": ["not np_accepts(npath)"]},
    locals={"buffer": StrJoin, "segments": SeqOf("_NPathSegment")},
    loops={0: Loop(invariant=_NP_INV)},
    canaries=["len(result) == 0"],
    props=["C12", "C05", "C08"],
)

contract(
    target=f"{M}::_format_attr_name",
    params={"segment": Rec("_NPathSegment")},
    returns=Str,
    ensures=["attr_spelling(result, segment.name, segment.quoted)"],
    exsures={},
    canaries=["result == segment.name"],
    domain=lambda tier: ({"segment": _seg(n, q)} for n in _names(tier) for q in (False, True)),
    props=["C12", "C05"],
)

# ---------------------------------------------------------------------------------------------
# lookups over lists of bindings (heap)
import specs.heapspec  # noqa: E402,F401


def _values_domain(extra):
    def gen(tier):
        from nix_manipulator import parse

        texts = ["{ }", "{ a = 1; }", "{ a = 1; b = 2; a' = 3; }", "{ a.b = 1; c = 2; }", "{ inherit a; b = 2; }", '{ "a" = 1; a = 2; }',
                 "{ a.b = 1; a = { c = 2; }; }"]
        for t in texts:
            for key in ["a", "b", "c", "zz", '"a"', ""]:
                s = parse(t).expr
                yield extra(s, key)

    return gen


contract(
    target=f"{M}::_find_binding",
    params={"target_set": Ref("AttributeSet"), "key": Str},
    returns=Ref("Binding"),
    ensures=["result is first_binding(target_set.values, key)", "heap_unchanged()"],
    domain=lambda tier: _values_domain(lambda s, k: {"target_set": s, "key": k})(tier),
    props=["C05", "C12", "C14"],
)

contract(
    target=f"{M}::_find_attrpath_root",
    params={"target_set": Ref("AttributeSet"), "root": Str},
    returns=Ref("Binding"),
    ensures=["result is first_binding(target_set.values, root, True)", "heap_unchanged()"],
    loops={0: Loop(invariant=["all(not (isinstance(target_set.values[j], Binding) and target_set.values[j].nested and "
                              "target_set.values[j].name == root) for j in range(_i))"])},
    domain=lambda tier: _values_domain(lambda s, k: {"target_set": s, "root": k})(tier),
    props=["C05", "C12", "C14"],
)

contract(
    target=f"{M}::_find_named_binding",
    params={"values": ListRef(), "key": Str, "nested": OneOf(NoneT, Lit(True), Lit(False))},
    returns=Ref("Binding"),
    ensures=["result is first_binding(values, key, nested)", "heap_unchanged()"],
    loops={0: Loop(invariant=[
        "all(not (isinstance(values[j], Binding) and values[j].name == key and (nested is None or values[j].nested == nested)) "
        "for j in range(_i))"])},
    domain=False,
    props=["C05", "C12", "C14"],
)
