"""Contracts for nix_manipulator/expressions/trivia.py: gap classification and separators (C02, C06, C18)."""
from pvc.contract import contract, External, Loop
from pvc.types import *
from pvc import types as _ty
import specs.trivia  # noqa: F401

T = "nix_manipulator/expressions/trivia.py"

_ty.declare_record("Layout", [("on_newline", "bool"), ("blank_line", "bool"), ("indent", "optint")])

contract(
    target=f"{T}::gap_has_empty_line",
    params={"gap": Str},
    returns=Bool,
    ensures=["result == has_blank_line(gap)"],
    canaries=["result == has_newline(gap)"],
    domain=dict(alphabet=["\n", " ", "\t", "a", "#", "\r"], max_len=5, max_len_thorough=6),
    props=["C02", "C06", "C18"],
)

contract(
    target=f"{T}::indent_from_gap",
    params={"gap": Str},
    returns=Int,
    ensures=["result == last_line_len(gap)"],
    canaries=["result == len(gap)"],
    domain=dict(alphabet=["\n", " ", "\t", "a"], max_len=5, max_len_thorough=6),
    props=["C02", "C06", "C18"],
)

contract(
    target=f"{T}::Layout.from_gap",
    params={"cls": ClassOf("Layout"), "gap": Str},
    returns=Rec("Layout"),
    inline=["gap_has_empty_line", "indent_from_gap"],
    ensures=[
        "result.on_newline == has_newline(gap)",
        "result.blank_line == (has_newline(gap) and has_blank_line(gap))",
        "iff(result.indent is None, not has_newline(gap))",
        "implies(has_newline(gap), result.indent == last_line_len(gap))",
    ],
    domain=False,
    props=["C02", "C06", "C18"],
)

contract(
    target=f"{T}::separator_from_layout",
    params={"layout": Rec("Layout"), "indent": Int, "inline_sep": Str},
    returns=Str,
    requires=["indent >= 0", "implies(layout.indent is not None, layout.indent >= 0)"],
    ensures=[
        "implies(not layout.on_newline, result == inline_sep)",
        # C18: a line separator is \\n, optionally one blank line, then spaces only
        "implies(layout.on_newline, is_line_separator(result))",
        # C06: what is emitted for a marker is classified back to the same marker
        "implies(layout.on_newline, has_newline(result) and has_blank_line(result) == layout.blank_line)",
        "implies(layout.on_newline and layout.indent is not None, last_line_len(result) == layout.indent)",
        "implies(layout.on_newline and layout.indent is None, last_line_len(result) == indent)",
    ],
    canaries=["implies(layout.on_newline, not has_blank_line(result))"],
    domain=False,
    props=["C06", "C18", "C02"],
)

contract(
    target=f"{T}::separator_from_layout_with_comments",
    params={"layout": Rec("Layout"), "comment_str": Str, "inline_sep": Str, "include_indent": Bool},
    returns=Str,
    requires=["implies(layout.indent is not None, layout.indent >= 0)"],
    ensures=[
        # on a new line: after the comments the text ends a line, then optionally one blank line, then the indent
        "implies(layout.on_newline, has_newline(comment_str + result))",
        "implies(layout.on_newline and not comment_str.endswith('\\n'), is_line_separator(result))",
        "implies(layout.on_newline and layout.blank_line, has_blank_line(comment_str + result) or not has_newline(comment_str))",
        # inline: exactly one separator between comments and what follows
        "implies(not layout.on_newline and comment_str == '', result == inline_sep)",
        "implies(not layout.on_newline and comment_str != '' and not comment_str.endswith((' ', '\\n')), result == inline_sep)",
        "implies(not layout.on_newline and comment_str.endswith((' ', '\\n')), result == '')",
    ],
    domain=False,
    props=["C06", "C18"],
)

contract(
    target=f"{T}::trim_trailing_layout_newline",
    params={"trivia_list": ListRef(), "rendered": Str},
    returns=Str,
    ensures=[
        # the final newline is dropped exactly when the last trivia item is not a layout marker
        "implies(len(trivia_list) > 0 and trivia_list[len(trivia_list) - 1] is not linebreak and trivia_list[len(trivia_list) - 1] is not empty_line "
        "and rendered.endswith('\\n'), result == rendered[:len(rendered) - 1])",
        "implies(len(trivia_list) == 0 or trivia_list[len(trivia_list) - 1] is linebreak or trivia_list[len(trivia_list) - 1] is empty_line "
        "or not rendered.endswith('\\n'), result == rendered)",
        "heap_unchanged()",
    ],
    domain=False,
    props=["C01", "C06", "C18"],
)

contract(
    target=f"{T}::append_gap_trivia",
    params={"trivia": ListRef(), "gap": Str, "include_linebreak": Bool},
    returns=NoneT,
    modifies=["trivia[]"],
    # a gap is reduced to one marker: empty_line if it contains a blank line, else linebreak if it contains a line feed
    ensures=[
        "implies(has_blank_line(gap), len(trivia) == old(len(trivia)) + 1 and trivia[len(trivia) - 1] is empty_line)",
        "implies(not has_blank_line(gap) and has_newline(gap) and include_linebreak, len(trivia) == old(len(trivia)) + 1 and trivia[len(trivia) - 1] is linebreak)",
        "implies(not has_blank_line(gap) and not (has_newline(gap) and include_linebreak), len(trivia) == old(len(trivia)))",
        "all(trivia[j] is old(trivia[j]) for j in range(old(len(trivia))))",
    ],
    domain=False,
    props=["C02", "C06", "C18"],
)

contract(
    target=f"{T}::trim_leading_layout_trivia",
    params={"trivia": ListRef()},
    returns=ListRef(),
    modifies=[],
    ensures=[
        # a fresh list (the argument is not modified): leading layout markers removed, the rest kept in order
        "heap_unchanged()",
        "len(result) <= len(trivia)",
        "implies(len(result) > 0, result[0] is not linebreak and result[0] is not empty_line)",
        "all(result[j] is trivia[j + len(trivia) - len(result)] for j in range(len(result)))",
        "all(trivia[j] is linebreak or trivia[j] is empty_line for j in range(len(trivia) - len(result)))",
    ],
    loops={0: Loop(invariant=[
        "trimmed >= alloc_at_entry()", "len(trimmed) <= len(trivia)",
        "all(trimmed[j] is trivia[j + len(trivia) - len(trimmed)] for j in range(len(trimmed)))",
        "all(trivia[j] is linebreak or trivia[j] is empty_line for j in range(len(trivia) - len(trimmed)))",
    ], modifies=["trimmed[]"], decreases="len(trimmed)")},
    domain=False,
    props=["C18", "C15"],
)

contract(
    target=f"{T}::_gap_has_empty_line_offsets",
    params={"source_bytes": Bytes, "start": Int, "end": Int, "first_newline": Opt(Int)},
    returns=Bool,
    requires=["0 <= start and start <= end and end <= len(source_bytes)",
              "implies(first_newline is not None, start <= first_newline and first_newline < end and source_bytes[first_newline] == 10)"],
    # memory safety of the offset scanner (C20: no IndexError on any gap, also at end of file) ...
    ensures=[
        # ... and a positive answer needs at least two line feeds in the window
        "implies(result, end - start >= 2)",
    ],
    exsures={},
    loops={
        0: Loop(invariant=["newline_index == -1 or (start <= newline_index and newline_index < end and source_bytes[newline_index] == 10)"]),
        1: Loop(invariant=["newline_index + 1 <= cursor and cursor <= end",
                           "start <= newline_index and newline_index < end and source_bytes[newline_index] == 10",
                           "all(source_bytes[k] == 32 or source_bytes[k] == 9 for k in range(newline_index + 1, cursor))"],
                decreases="end - cursor"),
    },
    domain=dict(alphabet=["\n", " ", "\t", "a"], max_len=4, max_len_thorough=5, ints=[0, 1, 2, 3, 4]),
    props=["C20", "C02", "C06"],
)
