"""Contracts for the syntax-error gate and pass-through (C07), source_code.py / raw.py / parser.py."""
from pvc.contract import contract, External, Loop
from pvc.types import *
import specs.source  # noqa: F401
import specs.values  # noqa: F401

SC = "nix_manipulator/expressions/source_code.py"
RW = "nix_manipulator/expressions/raw.py"
PR = "nix_manipulator/parser.py"

_NODE = Obj(text=Bytes, has_error=Bool, children=Opaque, start_byte=Int, end_byte=Int)

contract(
    target=f"{RW}::RawExpression.rebuild",
    params={"self": Ref("RawExpression"), "indent": Int, "inline": Bool},
    returns=Str,
    externals={"self.has_scope": External(returns=Bool, ensures=["result == (len(self.scope) > 0 or scope_stack_nonempty(self))"]),
               "self.rebuild_scoped": External(returns=Str), "self.add_trivia": External(returns=Str)},
    # raw text comes back untouched whenever the node carries no trivia and no let layers
    ensures=["implies(len(self.before) == 0 and len(self.after) == 0 and len(self.scope) == 0 and not scope_stack_nonempty(self), result == self.text)",
             "heap_unchanged()"],
    domain=False,
    props=["C07"],
)

contract(
    target=f"{SC}::NixSourceCode.from_cst",
    params={"cls": ClassOf("NixSourceCode"), "node": _NODE},
    returns=Ref("NixSourceCode"),
    modifies=[],
    externals={
        "source_bytes_context": External(returns=Opaque),
        "gap_from_offsets": External(returns=Str),
        "append_gap_trivia": External(returns=NoneT, params=["trivia", "gap"], modifies=["trivia[]"]),
        "parse_delimited_sequence": External(returns=Tup(ListRef(), ListRef()), allocates=True, fresh=True),
        "append_gap_trivia_from_offsets": External(returns=NoneT, params=["trivia"], modifies=["trivia[]"]),
    },
    ensures=[
        "result is not None",
        # the gate: pass-through mode exactly when tree-sitter reports an error
        "result.contains_error == node.has_error",
        # in pass-through mode the whole tree is one raw-text node holding the node's text, no trailing trivia
        "implies(node.has_error, len(result.expressions) == 1 and isinstance(result.expressions[0], RawExpression) "
        "and result.expressions[0].text == node.text.decode() and len(result.trailing) == 0 "
        "and len(result.expressions[0].before) == 0 and len(result.expressions[0].after) == 0 and len(result.expressions[0].scope) == 0)",
    ],
    exsures={},
    domain=False,
    props=["C07"],
)

contract(
    target=f"{SC}::NixSourceCode.rebuild",
    params={"self": Ref("NixSourceCode")},
    returns=Str,
    externals={
        "''.join": External(returns=Str, ensures=["result == exprs_text(self)"]),
        "format_trivia": External(returns=Str, params=["trivia_list"]),
        "trim_trailing_layout_newline": External(returns=Str, params=["trivia_list", "rendered"]),
        "rebuilt.endswith": External(returns=Bool),
    },
    # without trailing trivia the document text is exactly the text of its expressions (pass-through relies on it)
    ensures=["implies(len(self.trailing) == 0, result == exprs_text(self))", "heap_unchanged()"],
    domain=False,
    props=["C07", "C16"],
)

contract(
    target=f"{PR}::parse",
    params={"source_code": Str, "source_path": NoneT},
    returns=Ref("NixSourceCode"),
    modifies=["*"],
    externals={
        "parse_to_ast": External(returns=_NODE, params=["source_code"]),
    },
    ensures=[
        "result is not None",
        # C07: an erroneous source is kept as ONE raw node holding the complete input text (leading whitespace included)
        "implies(result.contains_error, len(result.expressions) == 1 and isinstance(result.expressions[0], RawExpression) "
        "and result.expressions[0].text == source_code)",
        "implies(result.contains_error, len(result.trailing) == 0 and len(result.expressions[0].before) == 0 "
        "and len(result.expressions[0].after) == 0 and len(result.expressions[0].scope) == 0 "
        "and not scope_stack_nonempty(result.expressions[0]))",
    ],
    domain=False,
    props=["C07"],
)

contract(
    kind="lemma",
    target="/verif/contracts/lemmas.py::lemma_error_source_passes_through",
    params={"text": Str},
    returns=NoneT,
    modifies=["*"],
    ensures=[],
    exsures={},  # the assertions must never fail
    domain=False,
    props=["C07"],
)
